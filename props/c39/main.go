// C39 — staking queue and staked-node counters stay consistent.
//
// Monitor shape: invariant checks over random histories against the real staking / validator system
// contracts on a metachain test node. User operations (stake, unStake, unStakeNodes, unBond, unJail,
// reStakeUnStakedNodes) are REAL transactions to the validator contract; protocol operations (jail as
// vm.JailingAddress; switchJailedWithWaiting, stakeNodesFromQueue, updateConfigMaxNodes,
// unStakeAtEndOfEpoch, resetLastUnJailedFromQueue as vm.EndOfEpochAddress) are calls into the real
// system VM whose output accounts are applied like epochStart/metachain/systemSCs.go does. After every
// operation the staking contract's raw storage is read from its data trie and decoded with the
// exported protobuf types.
//
// Violation keys (witness classes):
//
//	path=front-insert-without-prev-fix  first bad state of the history shows an element at position > 0
//	                                    whose PreviousKey is its own key (insertAfterLastJailed with no
//	                                    jailed key queued). The history is not checked any further.
//	prev-pointer, cycle, dangling-key, last-key, list-length, orphan-element, last-jailed, waiting-set,
//	staked-counter, max-nodes, decode   every other structural break, in a history that never produced
//	                                    the state above.
package main

import (
	"bytes"
	"encoding/hex"
	"fmt"
	"math/big"
	"os"
	"sort"
	"strings"

	logger "github.com/ElrondNetwork/elrond-go-logger"
	"github.com/ElrondNetwork/elrond-go/data/smartContractResult"
	"github.com/ElrondNetwork/elrond-go/integrationTests"
	"github.com/ElrondNetwork/elrond-go/vm"
	ssc "github.com/ElrondNetwork/elrond-go/vm/systemSmartContracts"
	vmcommon "github.com/ElrondNetwork/elrond-vm-common"

	"verif/internal/sysc"
	"verif/internal/vk"
)

const knownKey = "path=front-insert-without-prev-fix"

var debugReasons = os.Getenv("VERIF_DEBUG") != ""

func hx(b []byte) string  { return hex.EncodeToString(b) }
func bi(v int64) *big.Int { return big.NewInt(v) }
func short(b []byte) string {
	if len(b) > 4 {
		return hex.EncodeToString(b[:4])
	}
	return hex.EncodeToString(b)
}

// state is the decoded staking contract storage
type state struct {
	head     *ssc.WaitingList
	order    [][]byte // BLS keys in list order (walk from FirstKey)
	inList   map[string]int
	nodes    map[string]*ssc.StakedDataV2_0
	cfg      *ssc.StakingNodesConfig
	nStaked  int
	nWaiting int
}

type history struct {
	r *vk.Run
	c *vk.Case
	e *sysc.Env

	log      []string
	names    map[string]string // bls key -> short name
	priority map[string]bool   // model: keys queued through unJail with "add first" and still queued
	stopped  bool
	avoid    bool // this history never takes the front-insert path
}

func (h *history) logf(f string, a ...interface{}) { h.log = append(h.log, fmt.Sprintf(f, a...)) }

func (h *history) name(k []byte) string {
	if n, ok := h.names[string(k)]; ok {
		return n
	}
	return "?" + short(k)
}

func (h *history) viol(key, what string, st *state) {
	d := map[string]interface{}{"ops": append([]string(nil), h.log...), "what": what, "avoid_front_insert_mode": h.avoid}
	if st != nil {
		d["state"] = h.describe(st)
	}
	h.r.Violation(h.c.Idx, key, what, d)
	h.stopped = true
}

func (h *history) describe(st *state) map[string]interface{} {
	var q []string
	for _, k := range st.order {
		q = append(q, h.name(k))
	}
	var ns []string
	for k, n := range st.nodes {
		ns = append(ns, fmt.Sprintf("%s{staked=%v waiting=%v jailed=%v numJailed=%d}", h.name([]byte(k)), n.Staked, n.Waiting, n.Jailed, n.NumJailed))
	}
	sort.Strings(ns)
	d := map[string]interface{}{"walk": q, "nodes": ns}
	if st.head != nil {
		d["Length"] = st.head.Length
		d["FirstKey"] = h.name(bytes.TrimPrefix(st.head.FirstKey, []byte(ssc.VerifWaitingElementPrefix)))
		d["LastKey"] = h.name(bytes.TrimPrefix(st.head.LastKey, []byte(ssc.VerifWaitingElementPrefix)))
		d["LastJailedKey"] = h.name(bytes.TrimPrefix(st.head.LastJailedKey, []byte(ssc.VerifWaitingElementPrefix)))
	}
	if st.cfg != nil {
		d["StakedNodes"] = st.cfg.StakedNodes
		d["MaxNumNodes"] = st.cfg.MaxNumNodes
		d["MinNumNodes"] = st.cfg.MinNumNodes
	}
	return d
}

// check decodes the storage and applies the oracle. prevStaked < 0 disables the max-nodes rule.
func (h *history) check(op string, prevStaked int64, raw map[string][]byte) (*state, bool) {
	m := integrationTests.TestMarshalizer
	if raw == nil {
		raw = h.e.Storage(vm.StakingSCAddress)
	}
	pfx := []byte(ssc.VerifWaitingElementPrefix)
	st := &state{head: &ssc.WaitingList{}, inList: map[string]int{}, nodes: map[string]*ssc.StakedDataV2_0{}, cfg: &ssc.StakingNodesConfig{}}
	if b, ok := raw[ssc.VerifWaitingListHeadKey]; ok && len(b) > 0 {
		if err := m.Unmarshal(st.head, b); err != nil {
			h.viol("decode", "waiting list head does not decode after "+op, nil)
			return nil, false
		}
	}
	if b, ok := raw[ssc.VerifNodesConfigKey]; !ok || m.Unmarshal(st.cfg, b) != nil {
		h.viol("decode", "nodes config missing or not decodable after "+op, nil)
		return nil, false
	}
	// registered keys
	elements := map[string]*ssc.ElementInList{}
	for ks, v := range raw {
		k := []byte(ks)
		if len(v) == 0 {
			continue
		}
		if bytes.HasPrefix(k, pfx) {
			el := &ssc.ElementInList{}
			if err := m.Unmarshal(el, v); err != nil {
				h.viol("decode", fmt.Sprintf("waiting element %s does not decode after %s", short(k[len(pfx):]), op), nil)
				return nil, false
			}
			elements[ks] = el
			continue
		}
		if ks == ssc.VerifWaitingListHeadKey || ks == ssc.VerifNodesConfigKey || ks == ssc.VerifOwnerKey || len(k) < 32 {
			continue
		}
		sd := &ssc.StakedDataV2_0{}
		if err := m.Unmarshal(sd, v); err != nil {
			h.viol("decode", fmt.Sprintf("staked data of %s does not decode after %s", h.name(k), op), nil)
			return nil, false
		}
		st.nodes[ks] = sd
		if sd.Staked {
			st.nStaked++
		}
		if sd.Waiting {
			st.nWaiting++
		}
	}
	// --- walk
	h.r.Eval(1)
	cur := st.head.FirstKey
	var prevKey []byte
	pos := 0
	selfPrevAt := -1
	prevMismatchAt := -1
	for len(cur) > 0 {
		if _, seen := st.inList[string(cur)]; seen {
			h.viol("cycle", fmt.Sprintf("after %s: the waiting list walk revisits %s at position %d", op, h.name(bytes.TrimPrefix(cur, pfx)), pos), st)
			return nil, false
		}
		el, ok := elements[string(cur)]
		if !ok {
			h.viol("dangling-key", fmt.Sprintf("after %s: waiting list refers to element %s (position %d) which does not exist", op, h.name(bytes.TrimPrefix(cur, pfx)), pos), st)
			return nil, false
		}
		if !bytes.Equal(cur, append(append([]byte{}, pfx...), el.BLSPublicKey...)) {
			h.viol("dangling-key", fmt.Sprintf("after %s: element stored under %s carries BLS key %s", op, short(cur[len(pfx):]), short(el.BLSPublicKey)), st)
			return nil, false
		}
		if pos == 0 {
			if !bytes.Equal(el.PreviousKey, cur) && prevMismatchAt < 0 {
				prevMismatchAt = 0
			}
		} else if !bytes.Equal(el.PreviousKey, prevKey) {
			if bytes.Equal(el.PreviousKey, cur) {
				if selfPrevAt < 0 {
					selfPrevAt = pos
				}
			} else if prevMismatchAt < 0 {
				prevMismatchAt = pos
			}
		}
		st.inList[string(cur)] = pos
		st.order = append(st.order, append([]byte(nil), el.BLSPublicKey...))
		prevKey = cur
		cur = el.NextKey
		pos++
	}
	if selfPrevAt > 0 {
		// the known finding: everything later in this history follows from it
		h.r.Count("known_state_seen_after:"+op, 1)
		h.viol(knownKey, fmt.Sprintf("after %s: element %s at position %d has PreviousKey == its own key (front insertion left the old first element's back pointer untouched)", op, h.name(st.order[selfPrevAt]), selfPrevAt), st)
		return nil, false
	}
	if prevMismatchAt >= 0 {
		h.viol("prev-pointer", fmt.Sprintf("after %s: element %s at position %d has a wrong PreviousKey", op, h.name(st.order[prevMismatchAt]), prevMismatchAt), st)
		return nil, false
	}
	h.r.Eval(4)
	if len(st.order) > 0 && !bytes.Equal(prevKey, st.head.LastKey) {
		h.viol("last-key", fmt.Sprintf("after %s: walk ends at %s but LastKey is %s", op, h.name(bytes.TrimPrefix(prevKey, pfx)), h.name(bytes.TrimPrefix(st.head.LastKey, pfx))), st)
		return nil, false
	}
	if len(st.order) == 0 && (len(st.head.LastKey) > 0 || len(st.head.LastJailedKey) > 0) {
		h.viol("last-key", fmt.Sprintf("after %s: empty list but LastKey/LastJailedKey are set", op), st)
		return nil, false
	}
	if uint32(len(st.order)) != st.head.Length {
		h.viol("list-length", fmt.Sprintf("after %s: walk finds %d elements, Length is %d", op, len(st.order), st.head.Length), st)
		return nil, false
	}
	for ks := range elements {
		if _, ok := st.inList[ks]; !ok {
			h.viol("orphan-element", fmt.Sprintf("after %s: element %s exists in storage but is not reachable from FirstKey", op, h.name([]byte(ks)[len(pfx):])), st)
			return nil, false
		}
	}
	// --- LastJailedKey against the model of priority insertions
	h.r.Eval(1)
	lastPrio := -1
	for i, k := range st.order {
		if h.priority[string(k)] {
			if i != lastPrio+1 {
				h.viol("last-jailed", fmt.Sprintf("after %s: un-jailed (priority) node %s sits at position %d behind a non-priority node", op, h.name(k), i), st)
				return nil, false
			}
			lastPrio = i
		}
	}
	if len(st.head.LastJailedKey) > 0 {
		p, ok := st.inList[string(st.head.LastJailedKey)]
		if !ok {
			h.viol("last-jailed", fmt.Sprintf("after %s: LastJailedKey %s is not in the list", op, h.name(bytes.TrimPrefix(st.head.LastJailedKey, pfx))), st)
			return nil, false
		}
		if p != lastPrio {
			h.viol("last-jailed", fmt.Sprintf("after %s: LastJailedKey is at position %d but the last priority node is at %d", op, p, lastPrio), st)
			return nil, false
		}
	} else if lastPrio >= 0 {
		h.viol("last-jailed", fmt.Sprintf("after %s: LastJailedKey is empty but %d priority nodes are queued", op, lastPrio+1), st)
		return nil, false
	}
	// --- waiting set and counters
	h.r.Eval(3)
	for _, k := range st.order {
		n, ok := st.nodes[string(k)]
		if !ok || !n.Waiting {
			h.viol("waiting-set", fmt.Sprintf("after %s: queued key %s is not a registered key marked waiting", op, h.name(k)), st)
			return nil, false
		}
	}
	for ks, n := range st.nodes {
		if n.Staked && n.Waiting {
			h.viol("waiting-set", fmt.Sprintf("after %s: key %s is marked staked and waiting", op, h.name([]byte(ks))), st)
			return nil, false
		}
		if _, ok := st.inList[string(pfx)+ks]; n.Waiting && !ok {
			h.viol("waiting-set", fmt.Sprintf("after %s: key %s is marked waiting but is not in the list", op, h.name([]byte(ks))), st)
			return nil, false
		}
	}
	if int64(st.nStaked) != st.cfg.StakedNodes {
		h.viol("staked-counter", fmt.Sprintf("after %s: StakedNodes is %d, keys marked staked: %d", op, st.cfg.StakedNodes, st.nStaked), st)
		return nil, false
	}
	if prevStaked >= 0 && st.cfg.StakedNodes > st.cfg.MaxNumNodes && st.cfg.StakedNodes > prevStaked {
		h.viol("max-nodes", fmt.Sprintf("after %s: StakedNodes grew from %d to %d above MaxNumNodes %d", op, prevStaked, st.cfg.StakedNodes, st.cfg.MaxNumNodes), st)
		return nil, false
	}
	return st, true
}

func (h *history) rejectReason() string {
	for _, s := range h.e.SCRs() {
		if scr, ok := s.(*smartContractResult.SmartContractResult); ok && len(scr.ReturnMessage) > 0 {
			return string(scr.ReturnMessage)
		}
	}
	return "?"
}

func main() {
	_ = logger.SetLogLevel("*:NONE")
	restore := sysc.QuietStdout()
	r := vk.Start("C39")
	r.Rule("one history per case: metachain test node (genesis validators staked), MaxNumNodes lowered to staked+0..3, 3 owners, 6-9 fresh BLS keys plus the genesis keys; 50-90 operations: stake / unStake / unStakeNodes / unBond / unJail / reStakeUnStakedNodes as real transactions to the validator contract, jail / switchJailedWithWaiting / stakeNodesFromQueue (never more than the free places) / updateConfigMaxNodes / unStakeAtEndOfEpoch / resetLastUnJailedFromQueue as protocol calls into the system VM. Half of the histories never issue an unJail that would insert in front of a non-empty queue with no jailed key queued (the known front-insert path), so every other oracle keeps being exercised on long histories. A step is non-trivial when the contract accepted or rejected it; its shape is (operation, outcome, class of the key before, queue length bucket, LastJailedKey set, staking full).")
	r.Assume("integrationTests.TestProcessorNode wiring is the trusted base; all enable epochs are 0, so every staking feature flag is on (flags-off is not reachable in this environment)",
		"protocol calls are issued the way epochStart/metachain/systemSCs.go issues them (stakeNodesFromQueue only for free places)",
		"registered keys are all storage keys of the staking contract with length >= 32 that are not waiting-list elements")
	r.MinShapes(60)
	nCases := r.N(300, 3000)
	r.Parallel(nCases, func(c *vk.Case) { runHistory(r, c) })
	restore()
	r.Finish()
}

func runHistory(r *vk.Run, c *vk.Case) {
	rng := c.Rng
	e := sysc.New()
	h := &history{r: r, c: c, e: e, names: map[string]string{}, priority: map[string]bool{}, avoid: c.Idx%2 == 0}
	m := integrationTests.TestMarshalizer
	_ = m

	st, ok := h.check("genesis", -1, nil)
	if !ok {
		return
	}
	var genesisKeys [][]byte
	{
		var ks []string
		for k := range st.nodes {
			ks = append(ks, k)
		}
		sort.Strings(ks)
		for i, k := range ks {
			genesisKeys = append(genesisKeys, []byte(k))
			h.names[k] = fmt.Sprintf("G%d", i)
		}
	}
	maxNodes := st.cfg.StakedNodes + int64(rng.Intn(4))
	if maxNodes < st.cfg.MinNumNodes {
		maxNodes = st.cfg.MinNumNodes
	}
	if rc := e.Sys(vm.EndOfEpochAddress, vm.StakingSCAddress, "updateConfigMaxNodes", bi(maxNodes).Bytes()); rc != vmcommon.Ok {
		r.Inconclusive("initial updateConfigMaxNodes rejected: " + e.LastMessage)
		return
	}
	h.logf("genesis staked=%d min=%d; updateConfigMaxNodes %d", st.cfg.StakedNodes, st.cfg.MinNumNodes, maxNodes)
	var owners [][]byte
	for i := 0; i < 3; i++ {
		u := bytes.Repeat([]byte{byte(0x30 + i)}, 32)
		e.Mint(u, bi(1_000_000_000_000))
		owners = append(owners, u)
	}
	nKeys := 6 + rng.Intn(4)
	var keys [][]byte
	for i := 0; i < nKeys; i++ {
		k := rng.Bytes(96)
		keys = append(keys, k)
		h.names[string(k)] = fmt.Sprintf("K%d", i)
	}
	keyOwner := map[string][]byte{}
	st, ok = h.check("setup", -1, nil)
	if !ok {
		return
	}

	steps := 50 + rng.Intn(41)
	if !r.Quick() {
		steps = 60 + rng.Intn(100)
	}
	jailBias := rng.Intn(3) // some histories jail a lot
	for step := 0; step < steps && !h.stopped; step++ {
		e.Nonce++
		if rng.Intn(8) == 0 {
			e.Epoch++
		}
		e.SetHeader()
		// target key: mostly ours, sometimes a genesis key (only protocol operations can touch those)
		k := keys[rng.Intn(len(keys))]
		ownerOf := func(k []byte) []byte {
			if o, ok := keyOwner[string(k)]; ok {
				return o
			}
			return owners[rng.Intn(len(owners))]
		}
		// key selectors from the last decoded state
		pickKey := func(pred func(n *ssc.StakedDataV2_0) bool, num, den int, withGenesis bool) []byte {
			if rng.Chance(num, den) {
				var cand [][]byte
				pool := keys
				if withGenesis {
					pool = append(append([][]byte{}, keys...), genesisKeys...)
				}
				for _, x := range pool {
					if n, ok := st.nodes[string(x)]; ok && pred(n) {
						cand = append(cand, x)
					}
				}
				if len(cand) > 0 {
					return cand[rng.Intn(len(cand))]
				}
			}
			return k
		}
		var name string
		var rc vmcommon.ReturnCode
		var err error
		isTx := false
		e.CleanSCRs()
		full := st.cfg.StakedNodes >= st.cfg.MaxNumNodes
		op := rng.Intn(26 + 2*jailBias)
		switch {
		case op <= 5:
			name = "stake"
			isTx = true
			if rng.Chance(2, 3) { // prefer keys that are not active yet
				var cand [][]byte
				for _, x := range keys {
					if n, ok := st.nodes[string(x)]; !ok || (!n.Staked && !n.Waiting) {
						cand = append(cand, x)
					}
				}
				if len(cand) > 0 {
					k = cand[rng.Intn(len(cand))]
				}
			}
			o := ownerOf(k)
			h.logf("%s: stake %s by owner %x", h.pre(st, k), h.name(k), o[0])
			rc, err = e.Tx(o, vm.ValidatorSCAddress, "stake@01@"+hx(k)+"@"+hx([]byte("sig")), bi(1000))
			if err == nil && rc == vmcommon.Ok {
				if _, ok := keyOwner[string(k)]; !ok {
					keyOwner[string(k)] = o
				}
			}
		case op <= 9:
			name = "unStake"
			isTx = true
			k = pickKey(func(n *ssc.StakedDataV2_0) bool { return n.Staked || n.Waiting }, 5, 6, false)
			if len(h.priority) > 0 && rng.Chance(1, 4) { // remove a queued priority (un-jailed) node: moves LastJailedKey
				var cand []string
				for pk := range h.priority {
					cand = append(cand, pk)
				}
				sort.Strings(cand)
				k = []byte(cand[rng.Intn(len(cand))])
			}
			if rng.Chance(1, 4) {
				name = "unStakeNodes"
			}
			h.logf("%s: %s %s", h.pre(st, k), name, h.name(k))
			rc, err = e.Tx(ownerOf(k), vm.ValidatorSCAddress, name+"@"+hx(k), bi(0))
		case op <= 11:
			name = "unBond"
			isTx = true
			k = pickKey(func(n *ssc.StakedDataV2_0) bool { return !n.Staked && !n.Waiting }, 4, 5, false)
			if rng.Chance(1, 4) {
				name = "unBondNodes"
			}
			h.logf("%s: %s %s", h.pre(st, k), name, h.name(k))
			rc, err = e.Tx(ownerOf(k), vm.ValidatorSCAddress, name+"@"+hx(k), bi(0))
		case op == 12:
			name = "reStakeUnStakedNodes"
			isTx = true
			k = pickKey(func(n *ssc.StakedDataV2_0) bool { return !n.Staked && !n.Waiting && !n.Jailed }, 4, 5, false)
			h.logf("%s: reStakeUnStakedNodes %s", h.pre(st, k), h.name(k))
			rc, err = e.Tx(ownerOf(k), vm.ValidatorSCAddress, "reStakeUnStakedNodes@"+hx(k), bi(0))
		case op <= 14:
			name = "jail"
			k = pickKey(func(n *ssc.StakedDataV2_0) bool { return !n.Jailed && n.NumJailed == 0 }, 3, 4, true)
			h.logf("%s: jail %s", h.pre(st, k), h.name(k))
			rc = e.Sys(vm.JailingAddress, vm.StakingSCAddress, "jail", k)
		case op <= 18:
			name = "unJail"
			isTx = true
			k = pickKey(func(n *ssc.StakedDataV2_0) bool { return n.Jailed }, 5, 6, false)
			k = pickKey(func(n *ssc.StakedDataV2_0) bool { return n.Jailed && !n.Staked && n.NumJailed == 1 }, 2, 3, false)
			if h.avoid {
				// the front-insert path: a not-staked key jailed exactly once is un-jailed while staking is full,
				// the queue is not empty and no jailed key is queued
				if n, ok := st.nodes[string(k)]; ok && !n.Staked && n.NumJailed == 1 && full && len(st.order) > 0 && len(st.head.LastJailedKey) == 0 {
					if _, queued := st.inList[ssc.VerifWaitingElementPrefix+string(k)]; !queued {
						r.Count("unjail_skipped_in_avoid_mode", 1)
						name = "noop"
						h.logf("(skipped unJail %s: would take the front-insert path)", h.name(k))
						rc = vmcommon.Ok
						isTx = false
						break
					}
				}
			}
			h.logf("%s: unJail %s", h.pre(st, k), h.name(k))
			rc, err = e.Tx(ownerOf(k), vm.ValidatorSCAddress, "unJail@"+hx(k), bi(10))
		case op <= 21:
			name = "switchJailedWithWaiting"
			k = pickKey(func(n *ssc.StakedDataV2_0) bool { return n.Staked && !n.Jailed }, 5, 6, true)
			h.logf("%s: switchJailedWithWaiting %s", h.pre(st, k), h.name(k))
			rc = e.Sys(vm.EndOfEpochAddress, vm.StakingSCAddress, "switchJailedWithWaiting", k)
		case op == 22:
			name = "stakeNodesFromQueue"
			free := st.cfg.MaxNumNodes - st.cfg.StakedNodes
			if free <= 0 {
				name = "noop"
				h.logf("(stakeNodesFromQueue skipped: no free place)")
				rc = vmcommon.Ok
				break
			}
			n := int64(1 + rng.Intn(int(free)))
			h.logf("queue=%d free=%d: stakeNodesFromQueue %d", len(st.order), free, n)
			rc = e.Sys(vm.EndOfEpochAddress, vm.StakingSCAddress, "stakeNodesFromQueue", bi(n).Bytes())
		case op == 23:
			name = "updateConfigMaxNodes"
			nm := st.cfg.StakedNodes + int64(rng.Intn(5)) - 1
			if rng.Chance(1, 4) {
				nm = int64(1 + rng.Intn(8))
			}
			h.logf("staked=%d max=%d: updateConfigMaxNodes %d", st.cfg.StakedNodes, st.cfg.MaxNumNodes, nm)
			rc = e.Sys(vm.EndOfEpochAddress, vm.StakingSCAddress, "updateConfigMaxNodes", bi(nm).Bytes())
		case op <= 25:
			if rng.Chance(1, 8) {
				name = "resetLastUnJailedFromQueue"
				h.logf("resetLastUnJailedFromQueue")
				rc = e.Sys(vm.EndOfEpochAddress, vm.StakingSCAddress, "resetLastUnJailedFromQueue")
				if rc == vmcommon.Ok {
					h.priority = map[string]bool{}
				}
			} else {
				name = "unStakeAtEndOfEpoch"
				k = pickKey(func(n *ssc.StakedDataV2_0) bool { return n.Staked || n.Waiting }, 5, 6, true)
				h.logf("%s: unStakeAtEndOfEpoch %s", h.pre(st, k), h.name(k))
				rc = e.Sys(vm.EndOfEpochAddress, vm.StakingSCAddress, "unStakeAtEndOfEpoch", k)
			}
		default:
			name = "jail"
			// sets up a priority insertion: a key that is not staked and was never jailed
			k = pickKey(func(n *ssc.StakedDataV2_0) bool { return !n.Jailed && !n.Staked && n.NumJailed == 0 }, 5, 6, false)
			h.logf("%s: jail %s", h.pre(st, k), h.name(k))
			rc = e.Sys(vm.JailingAddress, vm.StakingSCAddress, "jail", k)
		}
		if name == "noop" {
			r.Trivial()
			continue
		}
		accepted := err == nil && rc == vmcommon.Ok
		outcome := "ok"
		if !accepted {
			outcome = "rejected"
			if err != nil {
				outcome = "txerror"
			}
		}
		h.log[len(h.log)-1] += " -> " + outcome
		r.Count("op:"+name+"/"+outcome, 1)
		if !accepted && debugReasons {
			reason := e.LastMessage
			if isTx {
				reason = h.rejectReason()
			}
			if i := strings.Index(reason, "key "); i >= 0 {
				reason = reason[:i]
			}
			r.Count("dbg:"+name+": "+reason, 1)
		}

		// model of priority insertions: decided from the state BEFORE the operation
		preNode := st.nodes[string(k)]
		_, wasQueued := st.inList[ssc.VerifWaitingElementPrefix+string(k)]
		prevStaked := st.cfg.StakedNodes
		prev := st
		st, ok = h.checkWithModel(name, k, accepted, preNode, wasQueued, prevStaked)
		if !ok {
			break
		}
		// evidence: which queue manipulations happened
		h.observe(prev, st, name, accepted)
		if outcome == "txerror" {
			r.Trivial()
		} else {
			cls := "unregistered"
			if preNode != nil {
				switch {
				case preNode.Staked && preNode.Jailed:
					cls = "staked+jailed"
				case preNode.Staked:
					cls = "staked"
				case preNode.Waiting && preNode.Jailed:
					cls = "queued+jailed"
				case preNode.Waiting:
					cls = "queued"
				case preNode.Jailed:
					cls = "unstaked+jailed"
				default:
					cls = "unstaked"
				}
			}
			ql := len(prev.order)
			if ql > 3 {
				ql = 3
			}
			r.Shape(fmt.Sprintf("%s/%s key=%s queue=%d lastJailed=%v full=%v", name, outcome, cls, ql, len(prev.head.LastJailedKey) > 0, full))
		}
		r.Max("max_queue_length", int64(len(st.order)))
	}
	r.Count("histories", 1)
	if h.avoid {
		r.Count("histories_avoiding_front_insert", 1)
	}
	r.Count("operations", len(h.log)-1)
	if !h.stopped && r.NeedSample() && len(h.log) > 14 {
		r.Sample(map[string]interface{}{"case": c.Idx, "avoid_front_insert_mode": h.avoid, "first_ops": h.log[:14], "final_state": h.describe(st)})
	}
}

// checkWithModel updates the priority model for the operation just executed and runs the oracle
func (h *history) checkWithModel(name string, k []byte, accepted bool, preNode *ssc.StakedDataV2_0, wasQueued bool, prevStaked int64) (*state, bool) {
	// peek at the new list membership first (cheap second decode is avoided by doing the model update inside)
	raw := h.e.Storage(vm.StakingSCAddress)
	pfx := ssc.VerifWaitingElementPrefix
	_, nowQueued := raw[pfx+string(k)]
	if accepted && name == "unJail" && !wasQueued && nowQueued && preNode != nil && preNode.NumJailed == 1 {
		h.priority[string(k)] = true
		h.r.Count("priority_insertions", 1)
	}
	// whatever left the queue is no longer a priority element
	for pk := range h.priority {
		if _, q := raw[pfx+pk]; !q {
			delete(h.priority, pk)
		}
	}
	return h.check(name, prevStaked, raw)
}

// pre describes the key's state before an operation (for the replay log)
func (h *history) pre(st *state, k []byte) string {
	n, ok := st.nodes[string(k)]
	if !ok {
		return fmt.Sprintf("[q=%d s=%d/%d] %s unregistered", len(st.order), st.cfg.StakedNodes, st.cfg.MaxNumNodes, h.name(k))
	}
	pos, q := st.inList[ssc.VerifWaitingElementPrefix+string(k)]
	p := ""
	if q {
		p = fmt.Sprintf(" pos=%d", pos)
	}
	return fmt.Sprintf("[q=%d s=%d/%d lj=%v] %s staked=%v waiting=%v jailed=%v nj=%d%s", len(st.order), st.cfg.StakedNodes, st.cfg.MaxNumNodes, len(st.head.LastJailedKey) > 0, h.name(k), n.Staked, n.Waiting, n.Jailed, n.NumJailed, p)
}

// observe counts the queue events of a transition (evidence only)
func (h *history) observe(prev, cur *state, name string, accepted bool) {
	if !accepted {
		// a rejected operation must leave the queue and the counters alone
		h.r.Eval(1)
		if len(prev.order) != len(cur.order) || prev.cfg.StakedNodes != cur.cfg.StakedNodes {
			h.viol("rejected-op-changed-state", fmt.Sprintf("rejected %s changed the queue length %d->%d or StakedNodes %d->%d", name, len(prev.order), len(cur.order), prev.cfg.StakedNodes, cur.cfg.StakedNodes), cur)
		}
		return
	}
	prevSet := map[string]int{}
	for i, k := range prev.order {
		prevSet[string(k)] = i
	}
	curSet := map[string]int{}
	for i, k := range cur.order {
		curSet[string(k)] = i
	}
	for k, i := range curSet {
		if _, ok := prevSet[k]; !ok {
			switch {
			case i == 0 && len(cur.order) == 1:
				h.r.Count("queue:insert-into-empty", 1)
			case i == 0:
				h.r.Count("queue:insert-front", 1)
			case i == len(cur.order)-1:
				h.r.Count("queue:append", 1)
			default:
				h.r.Count("queue:insert-middle", 1)
			}
		}
	}
	for k, i := range prevSet {
		if _, ok := curSet[k]; !ok {
			promoted := cur.nodes[k] != nil && cur.nodes[k].Staked
			w := "removed"
			if promoted {
				w = "promoted"
			}
			switch {
			case len(prev.order) == 1:
				h.r.Count("queue:"+w+"-only", 1)
			case i == 0:
				h.r.Count("queue:"+w+"-first", 1)
			case i == len(prev.order)-1:
				h.r.Count("queue:"+w+"-last", 1)
			default:
				h.r.Count("queue:"+w+"-middle", 1)
			}
		}
	}
	if strings.HasPrefix(name, "updateConfigMaxNodes") && cur.cfg.MaxNumNodes < cur.cfg.StakedNodes {
		h.r.Count("max_lowered_below_staked", 1)
	}
}
