// C20 — the fork detector never reports a fork at or below the highest final nonce (unless a rollback was
// requested or consensus is stuck), and the fork it selects does not depend on the arrival order of
// competing headers.
// Monitor shape: invariant over random histories (O1) + metamorphic permutation test (O2), on the real
// NewShardForkDetector / NewMetaForkDetector with a mock round handler (settable index), a block tracker
// mock (the shard detector's notarization callback is captured from it) and a stub black list.
package main

import (
	"bytes"
	"fmt"
	"math"
	"sort"
	"strings"
	"time"

	logger "github.com/ElrondNetwork/elrond-go-logger"
	"github.com/ElrondNetwork/elrond-go/core"
	"github.com/ElrondNetwork/elrond-go/data"
	"github.com/ElrondNetwork/elrond-go/data/block"
	"github.com/ElrondNetwork/elrond-go/process"
	"github.com/ElrondNetwork/elrond-go/process/mock"
	"github.com/ElrondNetwork/elrond-go/process/sync"
	"verif/internal/vk"
)

type forkDetector interface {
	AddHeader(header data.HeaderHandler, headerHash []byte, state process.BlockHeaderState, selfNotarizedHeaders []data.HeaderHandler, selfNotarizedHeadersHashes [][]byte) error
	RemoveHeader(nonce uint64, hash []byte)
	CheckFork() *process.ForkInfo
	GetHighestFinalBlockNonce() uint64
	ProbableHighestNonce() uint64
	ResetFork()
	ResetProbableHighestNonce()
	SetRollBackNonce(nonce uint64)
	RestoreToGenesis()
	SetFinalToLastCheckpoint()
}

type rig struct {
	meta    bool
	fd      forkDetector
	round   *mock.RoundHandlerMock
	notarFn func(shardID uint32, headers []data.HeaderHandler, hashes [][]byte) // shard only
}

func newRig(meta bool) (*rig, error) {
	g := &rig{meta: meta, round: &mock.RoundHandlerMock{RoundIndex: 1, RoundTimeDuration: time.Second}}
	coord := mock.NewMultiShardsCoordinatorMock(3)
	start := map[uint32]data.HeaderHandler{0: &block.Header{ShardID: 0}, 1: &block.Header{ShardID: 1}, 2: &block.Header{ShardID: 2}, core.MetachainShardId: &block.MetaBlock{}}
	bt := mock.NewBlockTrackerMock(coord, start)
	bt.RegisterSelfNotarizedFromCrossHeadersHandlerCalled = func(h func(uint32, []data.HeaderHandler, [][]byte)) { g.notarFn = h }
	var err error
	if meta {
		g.fd, err = sync.NewMetaForkDetector(g.round, &mock.TimeCacheStub{}, bt, 0)
	} else {
		g.fd, err = sync.NewShardForkDetector(g.round, &mock.TimeCacheStub{}, bt, 0)
		if err == nil && g.notarFn == nil {
			err = fmt.Errorf("shard fork detector did not register its notarization handler")
		}
	}
	return g, err
}

type hdr struct {
	Nonce uint64 `json:"nonce"`
	Round uint64 `json:"round"`
	Epoch uint32 `json:"epoch"`
	Hash  []byte `json:"-"`
	HashX string `json:"hash"`
}

func (g *rig) mk(h hdr) data.HeaderHandler {
	if g.meta {
		return &block.MetaBlock{Nonce: h.Nonce, Round: h.Round, Epoch: h.Epoch, TimeStamp: h.Round}
	}
	return &block.Header{Nonce: h.Nonce, Round: h.Round, Epoch: h.Epoch, TimeStamp: h.Round}
}

func newHdr(nonce, round uint64, epoch uint32, hash []byte) hdr {
	return hdr{nonce, round, epoch, hash, vk.Hex(hash[:4])}
}

func (g *rig) add(h hdr, st process.BlockHeaderState, notar []hdr) error {
	var nh []data.HeaderHandler
	var nhash [][]byte
	for _, x := range notar {
		nh = append(nh, g.mk(x))
		nhash = append(nhash, append([]byte(nil), x.Hash...))
	}
	return g.fd.AddHeader(g.mk(h), append([]byte(nil), h.Hash...), st, nh, nhash)
}

func (g *rig) notarize(hs []hdr) {
	if g.meta {
		for _, x := range hs {
			_ = g.add(x, process.BHNotarized, nil)
		}
		return
	}
	var nh []data.HeaderHandler
	var nhash [][]byte
	for _, x := range hs {
		nh = append(nh, g.mk(x))
		nhash = append(nhash, append([]byte(nil), x.Hash...))
	}
	g.notarFn(core.MetachainShardId, nh, nhash)
}

func errKind(err error) string {
	if err == nil {
		return "ok"
	}
	return err.Error()
}

func bucket(n int) string {
	switch {
	case n == 0:
		return "0"
	case n <= 2:
		return "1-2"
	case n <= 8:
		return "3-8"
	}
	return "9+"
}

// ---------------------------------------------------------------------------------------
// O1: histories

func history(r *vk.Run, c *vk.Case, meta bool) {
	rng := c.Rng
	g, err := newRig(meta)
	if err != nil {
		r.Inconclusive("cannot build fork detector: " + err.Error())
		return
	}
	kind := "shard"
	if meta {
		kind = "meta"
	}
	var chain []hdr // processed headers currently known to the detector, by increasing nonce
	var trace []string
	epoch := uint32(0)
	pending := false
	pendingNonce := uint64(0)
	resetForkRound := int64(-1)
	used := map[string]bool{}
	forks, stuck, rollbacks, finalAdv := 0, 0, 0, 0
	lastFinal := uint64(0)
	hwm := uint64(0) // highest final nonce ever reported since the last RestoreToGenesis
	regressReported := false
	nOps := 20 + rng.Intn(60)

	lastNonce := func() uint64 {
		if len(chain) == 0 {
			return 0
		}
		return chain[len(chain)-1].Nonce
	}
	find := func(n uint64) *hdr {
		for i := range chain {
			if chain[i].Nonce == n {
				return &chain[i]
			}
		}
		return nil
	}
	check := func(op string) {
		fi := g.fd.CheckFork()
		final := g.fd.GetHighestFinalBlockNonce()
		r.Eval(1)
		if final > lastFinal {
			finalAdv++
		}
		lastFinal = final
		if final < hwm && !regressReported {
			regressReported = true
			r.Violation(c.Idx, "final-nonce-regressed", fmt.Sprintf("%s: highest final nonce went from %d back to %d after %s (no RestoreToGenesis, no final block removed)", kind, hwm, final, op),
				map[string]interface{}{"kind": kind, "trace": trace, "previous_final": hwm, "final": final})
		}
		if final > hwm {
			hwm = final
		}
		if final < hwm {
			final = hwm // O1 is judged against the highest nonce that was ever declared final
		}
		if !fi.IsDetected {
			return
		}
		stuckForm := fi.Nonce == math.MaxUint64 && fi.Hash == nil
		if stuckForm {
			stuck++
			r.Count("signal:consensus-stuck", 1)
			// necessary conditions of "consensus stuck", recomputed from the mock clock
			idx := g.round.RoundIndex
			if idx%process.RoundModulusTrigger != 0 || idx == resetForkRound || idx <= process.MaxRoundsWithoutCommittedBlock {
				r.Violation(c.Idx, "stuck-signal-unexplained", fmt.Sprintf("%s: IsDetected with no nonce at round %d (ResetFork round %d): consensus cannot be stuck", kind, idx, resetForkRound),
					map[string]interface{}{"kind": kind, "trace": trace, "round": idx})
			}
			return
		}
		if pending && fi.Nonce == pendingNonce && fi.Hash == nil {
			pending = false
			rollbacks++
			r.Count("signal:requested-rollback", 1)
			return
		}
		forks++
		r.Count("signal:fork", 1)
		if fi.Nonce <= final {
			r.Violation(c.Idx, "fork-at-or-below-final", fmt.Sprintf("%s: CheckFork reports nonce %d (round %d hash %x) but highest final nonce is %d, after %s", kind, fi.Nonce, fi.Round, fi.Hash, final, op),
				map[string]interface{}{"kind": kind, "trace": trace, "fork_nonce": fi.Nonce, "final": final})
		} else {
			r.Count("fork_above_final", 1)
			r.Max("max_fork_distance_above_final", int64(fi.Nonce-final))
		}
		// like the real bootstrapper, sometimes roll the processed blocks back down to the fork nonce
		if rng.Bool() {
			for len(chain) > 0 && lastNonce() >= fi.Nonce && lastNonce() > final {
				h := chain[len(chain)-1]
				g.fd.RemoveHeader(h.Nonce, append([]byte(nil), h.Hash...))
				chain = chain[:len(chain)-1]
				trace = append(trace, fmt.Sprintf("rollback-remove n%d %s", h.Nonce, h.HashX))
			}
			used["rollback"] = true
		}
	}

	for op := 0; op < nOps; op++ {
		R := uint64(g.round.RoundIndex)
		x := rng.Intn(100)
		desc := ""
		switch {
		case x < 2 || (op == 0 && rng.Chance(1, 4)):
			// node restart as storageBootstrapper.applyBootInfos does it with one boot info: fresh state, the last
			// committed block as processed (with the self-notarized headers stored with it), competitors that arrive
			// meanwhile, then SetFinalToLastCheckpoint
			g.fd.RestoreToGenesis()
			hwm, lastFinal = 0, 0
			n := lastNonce()
			if n == 0 || rng.Chance(1, 3) {
				n = uint64(2 + rng.Intn(30))
			}
			if uint64(g.round.RoundIndex) < n+2 {
				g.round.RoundIndex = int64(n) + 2 + int64(rng.Intn(4))
			}
			R = uint64(g.round.RoundIndex)
			h := newHdr(n, R, epoch, rng.Bytes(32))
			var notar []hdr
			if !meta && rng.Bool() {
				notar = []hdr{newHdr(n-1, R-1, epoch, rng.Bytes(32))}
			}
			e := g.add(h, process.BHProcessed, notar)
			chain = nil
			if e == nil {
				chain = []hdr{h}
			}
			stored := 0
			for k := rng.Intn(3); k > 0; k-- {
				cn := n - uint64(rng.Intn(2))
				lo := int64(cn)
				cr := lo + int64(rng.Intn(int(int64(R)-lo)+1)) // a round in [nonce, R]: valid against the genesis checkpoint, not above mine
				cpt := newHdr(cn, uint64(cr), epoch, rng.Bytes(32))
				if rng.Chance(1, 4) {
					cpt.Hash[0] = 0
				}
				if g.add(cpt, process.BHReceived, nil) == nil {
					stored++
				}
			}
			g.fd.SetFinalToLastCheckpoint()
			desc = fmt.Sprintf("restart: RestoreToGenesis, processed n%d r%d %s notar=%d -> %s, %d stored competitors, SetFinalToLastCheckpoint", h.Nonce, h.Round, h.HashX, len(notar), errKind(e), stored)
			r.Count("restarts", 1)
			used["restart"] = true
		case x < 28:
			g.round.RoundIndex += int64(1 + rng.Intn(3))
			if rng.Chance(1, 25) {
				g.round.RoundIndex += int64(5 + rng.Intn(12)) // long silence: consensus may get stuck
			}
			desc = fmt.Sprintf("tick ->%d", g.round.RoundIndex)
			used["tick"] = true
		case x < 53:
			if len(chain) > 0 && chain[len(chain)-1].Round >= R {
				g.round.RoundIndex++
				R++
			}
			if rng.Chance(1, 30) {
				epoch++
			}
			h := newHdr(lastNonce()+1, R, epoch, rng.Bytes(32))
			var notar []hdr
			if !meta && rng.Chance(3, 5) {
				// the metachain notarized some of my recent blocks (sometimes a competing hash)
				for i := len(chain) - 1; i >= 0 && i >= len(chain)-2; i-- {
					n := chain[i]
					if rng.Chance(1, 6) {
						n = newHdr(n.Nonce, n.Round, n.Epoch, rng.Bytes(32))
					}
					notar = append([]hdr{n}, notar...)
				}
			}
			e := g.add(h, process.BHProcessed, notar)
			desc = fmt.Sprintf("processed n%d r%d e%d %s notar=%d -> %s", h.Nonce, h.Round, h.Epoch, h.HashX, len(notar), errKind(e))
			r.Count("add_processed:"+errKind(e), 1)
			if e == nil {
				chain = append(chain, h)
			}
			used["processed"] = true
		case x < 80:
			lo := g.fd.GetHighestFinalBlockNonce()
			if lo == 0 {
				lo = 1
			}
			hi := lastNonce() + 2
			n := lo + uint64(rng.Intn(int(hi-lo+1)))
			rd := int64(R) - 3 + int64(rng.Intn(5))
			if p := find(n); p != nil && rng.Bool() {
				rd = int64(p.Round) - 1 + int64(rng.Intn(3))
			}
			if rd < 1 {
				rd = 1
			}
			ep := epoch
			if rng.Chance(1, 10) {
				ep++
			}
			h := newHdr(n, uint64(rd), ep, rng.Bytes(32))
			if rng.Chance(1, 8) {
				h.Hash[0] = 0 // a very low hash: wins ties
			}
			if p := find(n); p != nil && rng.Chance(1, 7) {
				h = *p // my own block comes back from the network
			}
			e := g.add(h, process.BHReceived, nil)
			desc = fmt.Sprintf("received n%d r%d e%d %s -> %s", h.Nonce, h.Round, h.Epoch, h.HashX, errKind(e))
			r.Count("add_received:"+errKind(e), 1)
			used["received"] = true
		case x < 88:
			if len(chain) == 0 {
				continue
			}
			p := chain[rng.Intn(len(chain))]
			n := p
			if rng.Chance(3, 10) {
				n = newHdr(p.Nonce, p.Round, p.Epoch, rng.Bytes(32))
			}
			g.notarize([]hdr{n})
			desc = fmt.Sprintf("notarized n%d r%d %s (mine=%v)", n.Nonce, n.Round, n.HashX, bytes.Equal(n.Hash, p.Hash))
			r.Count("notarized", 1)
			used["notarized"] = true
		case x < 93:
			if len(chain) == 0 || lastNonce() <= g.fd.GetHighestFinalBlockNonce() {
				continue // final blocks are never rolled back
			}
			h := chain[len(chain)-1]
			g.fd.RemoveHeader(h.Nonce, append([]byte(nil), h.Hash...))
			chain = chain[:len(chain)-1]
			desc = fmt.Sprintf("remove n%d %s", h.Nonce, h.HashX)
			used["remove"] = true
		case x < 95:
			g.fd.ResetFork()
			resetForkRound = g.round.RoundIndex
			desc = "resetFork"
			used["resetFork"] = true
		case x < 97:
			g.fd.ResetProbableHighestNonce()
			desc = "resetProbableHighestNonce"
			used["resetProbable"] = true
		default:
			pendingNonce = uint64(rng.Intn(int(lastNonce() + 1)))
			pending = true
			g.fd.SetRollBackNonce(pendingNonce)
			desc = fmt.Sprintf("setRollBackNonce %d", pendingNonce)
			used["setRollback"] = true
		}
		trace = append(trace, desc)
		check(desc)
	}
	var u []string
	for k := range used {
		u = append(u, k)
	}
	sort.Strings(u)
	if forks+stuck+rollbacks == 0 {
		r.Trivial()
	} else {
		r.Shape(fmt.Sprintf("O1 %s ops{%s} forks=%s stuck=%s rollbacks=%s finalAdv=%s", kind, strings.Join(u, ","), bucket(forks), bucket(stuck), bucket(rollbacks), bucket(finalAdv)))
	}
	r.Max("max_final_nonce", int64(lastFinal))
	if r.NeedSample() && forks > 0 && len(trace) < 30 {
		r.Sample(map[string]interface{}{"oracle": "O1", "kind": kind, "trace": trace, "forks_detected": forks, "final": lastFinal})
	}
}

// ---------------------------------------------------------------------------------------
// O2: arrival-order independence

type scenario struct {
	meta        bool
	prefix      []hdr // processed, in order; with notarization flags (shard)
	notarUpTo   int   // shard: prefix[:notarUpTo] are notarized with the processing of the following block
	roundAtComp int64
	comp        []hdr
	suffix      []hdr
	roundAtEnd  int64
}

func (s *scenario) run(order []int) (res string, addErrs []string, err error) {
	g, err := newRig(s.meta)
	if err != nil {
		return "", nil, err
	}
	for i, h := range s.prefix {
		g.round.RoundIndex = int64(h.Round)
		var notar []hdr
		if !s.meta && i > 0 && i-1 < s.notarUpTo {
			notar = []hdr{s.prefix[i-1]}
		}
		if e := g.add(h, process.BHProcessed, notar); e != nil {
			return "", nil, fmt.Errorf("prefix header rejected: %v", e)
		}
	}
	g.round.RoundIndex = s.roundAtComp
	addErrs = make([]string, len(s.comp))
	for _, i := range order {
		addErrs[i] = errKind(g.add(s.comp[i], process.BHReceived, nil))
	}
	for _, h := range s.suffix {
		g.round.RoundIndex = int64(h.Round)
		_ = g.add(h, process.BHProcessed, nil)
	}
	g.round.RoundIndex = s.roundAtEnd
	fi := g.fd.CheckFork()
	return fmt.Sprintf("detected=%v nonce=%d round=%d hash=%x final=%d", fi.IsDetected, fi.Nonce, fi.Round, fi.Hash, g.fd.GetHighestFinalBlockNonce()), addErrs, nil
}

func permutations(n int) [][]int {
	if n == 0 {
		return [][]int{{}}
	}
	var out [][]int
	for _, p := range permutations(n - 1) {
		for pos := 0; pos <= len(p); pos++ {
			q := append([]int(nil), p[:pos]...)
			q = append(q, n-1)
			q = append(q, p[pos:]...)
			out = append(out, q)
		}
	}
	return out
}

func orderCase(r *vk.Run, c *vk.Case, meta bool) {
	rng := c.Rng
	s := &scenario{meta: meta}
	kind := "shard"
	if meta {
		kind = "meta"
	}
	k := 2 + rng.Intn(4)
	round := uint64(1)
	for n := 1; n <= k; n++ {
		round += uint64(1 + rng.Intn(3))
		s.prefix = append(s.prefix, newHdr(uint64(n), round, 0, rng.Bytes(32)))
	}
	s.notarUpTo = rng.Intn(k)
	// round index while the competitors arrive: near the last processed block, never a "stuck" round
	s.roundAtComp = int64(round) + int64(rng.Intn(3))
	m := 2 + rng.Intn(4)
	ties := false
	nonces := map[uint64]bool{}
	firstFree := uint64(1) // competitors must not be below the final checkpoint: use the upper part of the chain
	if meta {
		firstFree = uint64(k) - 1
		if firstFree < 1 {
			firstFree = 1
		}
	} else if s.notarUpTo > 0 {
		firstFree = uint64(s.notarUpTo)
	}
	for i := 0; i < m; i++ {
		n := firstFree + uint64(rng.Intn(k-int(firstFree)+2))
		var rd uint64
		if int(n) <= k {
			p := s.prefix[n-1]
			rd = p.Round - 1 + uint64(rng.Intn(3))
		} else {
			rd = round + uint64(rng.Intn(3))
		}
		if i > 0 && rng.Chance(1, 2) { // force a tie with an earlier competitor
			prev := s.comp[rng.Intn(len(s.comp))]
			n, rd = prev.Nonce, prev.Round
			ties = true
		}
		if rd < 1 {
			rd = 1
		}
		ep := uint32(0)
		if rng.Chance(1, 12) {
			ep = 1
		}
		h := newHdr(n, rd, ep, rng.Bytes(32))
		if rng.Chance(1, 6) {
			h.Hash[0] = 0
		}
		if rng.Chance(1, 6) {
			h.Hash[0] = 0xff
		}
		nonces[n] = true
		s.comp = append(s.comp, h)
	}
	if rng.Chance(1, 3) {
		round = uint64(s.roundAtComp) + 1
		s.suffix = append(s.suffix, newHdr(uint64(k+1), round, 0, rng.Bytes(32)))
		s.roundAtEnd = int64(round)
	} else {
		s.roundAtEnd = s.roundAtComp + int64(rng.Intn(2))
	}
	if s.roundAtEnd%process.RoundModulusTrigger == 0 {
		s.roundAtEnd++ // stay out of the "consensus stuck" trigger rounds: O2 is about the selected fork
	}

	perms := permutations(m)
	if len(perms) > 120 {
		perms = perms[:120]
	}
	base, baseErrs, err := s.run(perms[0])
	if err != nil {
		r.Inconclusive("O2 scenario prefix: " + err.Error())
		return
	}
	accepted := 0
	for _, e := range baseErrs {
		if e == "ok" {
			accepted++
		}
	}
	detected := strings.HasPrefix(base, "detected=true")
	for _, p := range perms[1:] {
		got, errs, _ := s.run(p)
		r.Eval(1)
		if got != base {
			r.Violation(c.Idx, "order-dependent-fork-choice", fmt.Sprintf("%s: arrival order %v gives {%s}, order %v gives {%s}", kind, perms[0], base, p, got),
				map[string]interface{}{"kind": kind, "processed_prefix": s.prefix, "notarized_up_to": s.notarUpTo, "round_at_arrival": s.roundAtComp, "competitors": s.comp, "processed_suffix": s.suffix,
					"round_at_check": s.roundAtEnd, "order_a": perms[0], "result_a": base, "order_b": p, "result_b": got})
			break
		}
		if strings.Join(errs, "|") != strings.Join(baseErrs, "|") {
			r.Count("O2_add_result_differs_by_order", 1)
		}
	}
	r.Count("O2_scenarios", 1)
	if detected {
		r.Count("O2_scenarios_with_fork", 1)
	}
	if accepted < 2 {
		r.Trivial()
	} else {
		r.Shape(fmt.Sprintf("O2 %s m=%d accepted=%d nonces=%d ties=%v suffix=%d detected=%v", kind, m, accepted, len(nonces), ties, len(s.suffix), detected))
	}
	if r.NeedSample() && detected && ties && m <= 3 {
		r.Sample(map[string]interface{}{"oracle": "O2", "kind": kind, "processed_prefix": s.prefix, "competitors": s.comp, "result_all_orders": base, "orders": len(perms)})
	}
}

func main() {
	logger.SetLogLevel("*:NONE")
	r := vk.Start("C20")
	r.Rule("even cases: a random history of 20-80 operations on a shard or meta fork detector (round ticks incl. long silences, processed blocks extending the chain with/without notarization of the previous ones, received competitors for nonces final..last+2 with rounds around the processed block's round / low hashes / a later epoch, notarizations with my or a competing hash, RemoveHeader, ResetFork, ResetProbableHighestNonce, SetRollBackNonce, rollbacks after a detected fork, and node restarts as storageBootstrapper.applyBootInfos performs them: RestoreToGenesis, the last committed block as processed with its stored self-notarized headers, competitors at nonces <= that block with rounds <= its round, SetFinalToLastCheckpoint, then processed blocks that are not notarized); CheckFork after every operation (O1, judged against the highest final nonce ever reported since the last RestoreToGenesis; that nonce must never go backwards). odd cases: a fixed processed prefix, 2-5 competing received headers (forced round/nonce ties, extreme hashes, later epoch), optional processed suffix, replayed on a fresh detector for every arrival order (<= 120) (O2). Non-trivial: O1 history with at least one signal, O2 scenario with >= 2 accepted competitors; shape = operation kinds used + bucketed signal counts, resp. (m, accepted, distinct nonces, ties, suffix, detected).")
	r.Assume("a header hash identifies the header (competitors have distinct hashes unless they are the processed block itself)",
		"timestamps are consistent with the genesis time; the black list is a stub that never lists anything",
		"a signal with IsDetected and Nonce == MaxUint64 is the 'consensus stuck' signal; it is checked against the necessary conditions recomputed from the mock clock (trigger round, no ResetFork in this round, more than MaxRoundsWithoutCommittedBlock rounds since genesis)",
		"a pending SetRollBackNonce is consumed by the first non-stuck CheckFork and is exempt from O1",
		"final blocks are never removed (RemoveHeader is only called for nonces above the highest final nonce), and SetFinalToLastCheckpoint is only used in the restart sequence on a freshly reset detector: under these two restrictions the highest final nonce is monotone on the unchanged tree (computeFinalCheckpoint only stores a candidate backed by a processed-and-notarized entry; the meta detector only moves to the previous checkpoint)")
	r.MinShapes(30)
	n := r.N(6000, 400000)
	r.Parallel(n, func(c *vk.Case) {
		meta := (c.Idx/2)%2 == 1
		if c.Idx%2 == 0 {
			history(r, c, meta)
		} else {
			orderCase(r, c, meta)
		}
	})
	if r.Counter("signal:fork") < 50 {
		r.Inconclusive(fmt.Sprintf("only %d forks detected", r.Counter("signal:fork")))
	}
	r.Finish()
}
