package main

import (
	"fmt"
	"sync"

	"github.com/ElrondNetwork/elrond-go/core"
	"github.com/ElrondNetwork/elrond-go/data/block"
	"github.com/ElrondNetwork/elrond-go/marshal"
	"github.com/ElrondNetwork/elrond-go/process/block/preprocess"
	"github.com/ElrondNetwork/elrond-go/process/throttle"
	"verif/internal/vk"
)

type fullSizer interface {
	sizer
	Init()
	AddNumMiniBlocks(numMiniBlocks int)
	AddNumTxs(numTxs int)
}

// probe is one (newMiniBlocks, newTxs) query used by the monotonicity oracle
type probe struct{ a, b int }

var probes = []probe{{0, 0}, {1, 0}, {0, 1}, {1, 100}, {0, 5000}, {3, 20000}, {1, 27000}, {10, 60000}, {40, 100000}}

// proposerSim drives the REAL block size throttler and the real size computation through a history of
// proposer rounds the way the block processor does: ComputeCurrentMaxSize, Init, then
//  1. whole miniblocks (dst-me / SCR / reward / peer miniblocks of 1..10000 txs) admitted through
//     IsMaxBlockSizeWithoutThrottleReached(1, n) and registered with AddNumMiniBlocks(1) + AddNumTxs(n),
//  2. from-me transactions / miniblocks admitted through the throttled IsMaxBlockSizeReached (also when the
//     throttler's current maximum is already below what has been accumulated),
//
// then the body is marshalled, throttler.Add(round, size), Succeed(round) or not.
// Oracles: GetCurrentMaxSize() never exceeds the configured maximum; a body whose every item was admitted
// while the respective predicate said "fits" (within the miniblock ceiling) is at most the network limit;
// both predicates are monotone in their arguments and in the registered counters.
func proposerSim(r *vk.Run, c *vk.Case, ceiling int, m marshal.Marshalizer) {
	rng := c.Rng
	th, err := throttle.NewBlockSizeThrottle(prodMinSize, prodMaxSize)
	if err != nil {
		r.Inconclusive("throttler constructor: " + err.Error())
		return
	}
	var bsc fullSizer
	bsc, err = preprocess.NewBlockSizeComputation(m, th, prodMaxSize)
	if err != nil {
		r.Inconclusive("size computation constructor: " + err.Error())
		return
	}
	rounds := 6 + rng.Intn(10)
	style := rng.Intn(4)      // from-me part: 0,1: many tiny META/ALL reward miniblocks (largest undershoot); 2: mixed; 3: few big miniblocks
	wholeStyle := rng.Intn(4) // whole miniblocks per round: 0: none; 1: a few big; 2: several mixed; 3: many small
	succPct := []int{40, 70, 90}[rng.Intn(3)]
	round := uint64(rng.Intn(100000))
	var hist []string
	sawFailOversized, sawShrink, sawGrow, sawAccumulatedAboveThrottled := false, false, false, false
	prevMax := th.GetCurrentMaxSize()
	detail := func() map[string]interface{} {
		return map[string]interface{}{"configuredMin": prodMinSize, "configuredMax": prodMaxSize, "style": style, "wholeStyle": wholeStyle, "history": hist}
	}
	maxReported := false
	checkMax := func(when string) bool {
		cur := th.GetCurrentMaxSize()
		r.Eval(1)
		r.Max("sim_largest_current_max_size", int64(cur))
		if cur > prodMaxSize {
			hist = append(hist, fmt.Sprintf("%s: GetCurrentMaxSize()=%d", when, cur))
			if maxReported {
				return false
			}
			maxReported = true
			r.Violation(c.Idx, "throttle-max-above-configured",
				fmt.Sprintf("GetCurrentMaxSize() = %d > configured maximum %d %s (round history of %d entries in the replay detail)", cur, prodMaxSize, when, len(hist)), detail())
			return false
		}
		return true
	}
	mkMiniBlock := func(k int, rewardsMetaAll bool) *block.MiniBlock {
		mb := &block.MiniBlock{}
		if rewardsMetaAll {
			mb.SenderShardID, mb.ReceiverShardID, mb.Type = core.MetachainShardId, core.AllShardId, block.RewardsBlock
		} else {
			mb.SenderShardID, mb.ReceiverShardID = shardIDs[rng.Intn(len(shardIDs))], shardIDs[rng.Intn(len(shardIDs))]
			mb.Type = mbTypes[rng.Intn(len(mbTypes))]
		}
		if k > 0 {
			buf := rng.Bytes(k * hashLen)
			mb.TxHashes = make([][]byte, k)
			for t := 0; t < k; t++ {
				mb.TxHashes[t] = buf[t*hashLen : (t+1)*hashLen : (t+1)*hashLen]
			}
		}
		return mb
	}
	monoReported := false
	for i := 0; i < rounds; i++ {
		round += 1 + uint64(rng.Intn(3))
		th.ComputeCurrentMaxSize()
		allowed := th.GetCurrentMaxSize()
		checkMax("after ComputeCurrentMaxSize")
		if allowed < prevMax {
			sawShrink = true
		}
		if allowed > prevMax {
			sawGrow = true
		}
		prevMax = allowed
		bsc.Init()
		body := &block.Body{}
		nmb, ntx := 0, 0
		regMb, regTx := 0, 0 // what the harness registered (the throttler's maximum does not change inside a round)

		// monotonicity oracle: answers of both predicates for a fixed set of queries; re-asked after registrations
		var lastThr, lastUn [9]bool
		haveLast := false
		checkMono := func(when string) {
			var thr, un [9]bool
			for pi, p := range probes {
				thr[pi] = bsc.IsMaxBlockSizeReached(p.a, p.b)
				un[pi] = bsc.IsMaxBlockSizeWithoutThrottleReached(p.a, p.b)
			}
			r.Eval(2)
			r.Count("sim_monotonicity_probe_rounds", 1)
			fail := func(what string) {
				if monoReported {
					return
				}
				monoReported = true
				hist = append(hist, "monotonicity: "+what)
				r.Violation(c.Idx, "predicate-not-monotone", fmt.Sprintf("%s (%s; registered %d miniblocks + %d txs; throttler max %d, hard max %d)", what, when, regMb, regTx, allowed, prodMaxSize), detail())
			}
			for pi, p := range probes {
				// in the registered counters: an answer "does not fit" never turns into "fits" while more is registered
				if haveLast && lastThr[pi] && !thr[pi] {
					fail(fmt.Sprintf("IsMaxBlockSizeReached(%d,%d) was true and became false after registering more", p.a, p.b))
				}
				if haveLast && lastUn[pi] && !un[pi] {
					fail(fmt.Sprintf("IsMaxBlockSizeWithoutThrottleReached(%d,%d) was true and became false after registering more", p.a, p.b))
				}
				// in the arguments (includes: accumulated above the maximum, i.e. (0,0) reached => everything reached)
				for qi, q := range probes {
					if q.a >= p.a && q.b >= p.b && qi != pi {
						if thr[pi] && !thr[qi] {
							fail(fmt.Sprintf("IsMaxBlockSizeReached(%d,%d) is true but IsMaxBlockSizeReached(%d,%d) is false", p.a, p.b, q.a, q.b))
						}
						if un[pi] && !un[qi] {
							fail(fmt.Sprintf("IsMaxBlockSizeWithoutThrottleReached(%d,%d) is true but (%d,%d) is false", p.a, p.b, q.a, q.b))
						}
					}
				}
			}
			if thr[0] {
				sawAccumulatedAboveThrottled = true
			}
			lastThr, lastUn, haveLast = thr, un, true
		}
		checkMono("start of round")

		// 1. whole miniblocks through the un-throttled predicate
		wholeAdmitted, wholeRefused := 0, 0
		nWhole := 0
		switch wholeStyle {
		case 1:
			nWhole = 1 + rng.Intn(4)
		case 2:
			nWhole = 2 + rng.Intn(10)
		case 3:
			nWhole = 10 + rng.Intn(60)
		}
		if rng.Chance(1, 5) {
			nWhole = 0
		}
		for w := 0; w < nWhole && nmb < ceiling; w++ {
			n := 0
			switch wholeStyle {
			case 1:
				n = 2000 + rng.Intn(8001)
			case 2:
				n = 1 + rng.Intn(10000)
				if rng.Bool() {
					n = 1 + rng.Intn(800)
				}
			default:
				n = 1 + rng.Intn(60)
			}
			if bsc.IsMaxBlockSizeWithoutThrottleReached(1, n) {
				wholeRefused++
				if wholeRefused >= 2 {
					break
				}
				continue
			}
			body.MiniBlocks = append(body.MiniBlocks, mkMiniBlock(n, rng.Chance(1, 3)))
			bsc.AddNumMiniBlocks(1)
			bsc.AddNumTxs(n)
			regMb, regTx = regMb+1, regTx+n
			nmb++
			ntx += n
			wholeAdmitted++
			checkMono("after registering a whole miniblock")
		}

		// 2. from-me part through the throttled predicate
		fromMeAdmitted := 0
		fullFill := rng.Chance(2, 3)
		targetMb := 0
		switch style {
		case 0, 1:
			targetMb = ceiling - rng.Intn(1+ceiling/4)
		case 2:
			targetMb = 1 + rng.Intn(ceiling)
		default:
			targetMb = 1 + rng.Intn(40)
		}
		if !fullFill {
			targetMb = 1 + rng.Intn(targetMb)
		}
		if targetMb <= nmb {
			targetMb = nmb + 1
		}
		// expected number of hashes per miniblock so that the body fills up around targetMb miniblocks
		perMb := int(allowed) / 34 / targetMb
		full := false
		for nmb < targetMb && nmb < ceiling && !full {
			k := 0
			switch {
			case style <= 1 && nmb < targetMb-1:
				k = rng.Intn(2) // tiny miniblocks, the last one takes the rest
			case style <= 1:
				k = 60000
			default:
				k = rng.Intn(2*perMb + 2)
				if nmb == targetMb-1 && fullFill {
					k = 60000
				}
			}
			if bsc.IsMaxBlockSizeReached(1, k) {
				// the largest piece that still fits (the processors add tx by tx until the predicate says stop)
				lo, hi := -1, k
				for lo < hi {
					mid := (lo + hi + 1) / 2
					if bsc.IsMaxBlockSizeReached(1, mid) {
						hi = mid - 1
					} else {
						lo = mid
					}
				}
				full = true
				if lo < 0 {
					break
				}
				k = lo
			}
			body.MiniBlocks = append(body.MiniBlocks, mkMiniBlock(k, style <= 1 || rng.Bool()))
			bsc.AddNumMiniBlocks(1)
			if k > 0 {
				if rng.Bool() {
					bsc.AddNumTxs(k)
				} else { // in two steps, as the tx-by-tx processors do
					bsc.AddNumTxs(k / 2)
					bsc.AddNumTxs(k - k/2)
				}
			}
			regMb, regTx = regMb+1, regTx+k
			nmb++
			ntx += k
			fromMeAdmitted++
			if fromMeAdmitted%32 == 1 || full {
				checkMono("after registering a from-me miniblock")
			}
		}
		checkMono("end of round")
		if wholeAdmitted > 0 && fromMeAdmitted == 0 && bsc.IsMaxBlockSizeReached(0, 0) {
			r.Count("sim_rounds_accumulated_above_throttled_max", 1)
		}
		path := "throttled"
		switch {
		case wholeAdmitted > 0 && fromMeAdmitted > 0:
			path = "mixed"
		case wholeAdmitted > 0:
			path = "unthrottled"
		}
		buff, err := m.Marshal(body)
		if err != nil {
			r.Violation(c.Idx, "marshal-error", err.Error(), nil)
			return
		}
		size := len(buff)
		r.Eval(1)
		r.Count("sim_rounds", 1)
		r.Count("sim_rounds_path_"+path, 1)
		r.Count("sim_whole_miniblocks_admitted", wholeAdmitted)
		r.Count("sim_whole_miniblocks_refused", wholeRefused)
		r.Max("sim_largest_body_bytes", int64(size))
		oversized := uint32(size) > allowed
		if oversized {
			r.Count("sim_rounds_body_above_allowed_size", 1)
		}
		th.Add(round, uint32(size))
		ok := rng.Intn(100) < succPct
		if oversized && rng.Chance(1, 2) {
			ok = false
		}
		if ok {
			th.Succeed(round)
			r.Count("sim_rounds_succeeded", 1)
		} else {
			r.Count("sim_rounds_failed", 1)
			if oversized {
				sawFailOversized = true
			}
		}
		hist = append(hist, fmt.Sprintf("round %d: allowed %d, %d whole miniblocks admitted un-throttled (%d refused), %d from-me miniblocks admitted throttled; body %d miniblocks + %d txs = %d bytes, succeeded=%v", round, allowed, wholeAdmitted, wholeRefused, fromMeAdmitted, nmb, ntx, size, ok))
		if size > networkLimit && nmb <= ceiling {
			r.Violation(c.Idx, "estimate-accepts-oversized-body path="+path,
				fmt.Sprintf("every item was admitted while its predicate said it fits (%d whole miniblocks un-throttled, %d from-me miniblocks throttled; %d miniblocks + %d txs; throttler max %d, configured max %d) but the body is %d bytes > %d", wholeAdmitted, fromMeAdmitted, nmb, ntx, allowed, prodMaxSize, size, networkLimit), detail())
			return
		}
		checkMax("after Add/Succeed")
	}
	th.ComputeCurrentMaxSize()
	checkMax("after the last ComputeCurrentMaxSize")
	r.Count("sim_histories", 1)
	if sawFailOversized {
		r.Count("sim_histories_with_failed_oversized_round", 1)
	}
	if sawAccumulatedAboveThrottled {
		r.Count("sim_histories_with_accumulated_above_throttled_max", 1)
	}
	r.Shape(fmt.Sprintf("sim style%d whole%d succ%d rounds~%d failedOversized=%v shrink=%v grow=%v aboveThrottled=%v", style, wholeStyle, succPct, rounds/4*4, sawFailOversized, sawShrink, sawGrow, sawAccumulatedAboveThrottled))
	if r.NeedSample() && sawFailOversized && sawGrow && sawAccumulatedAboveThrottled {
		r.Sample(map[string]interface{}{"phase": "proposer-simulation", "history": hist})
	}
}

// concurrentAdds: G goroutines add known totals of miniblocks / txs to one computation in small
// increments while a second instance receives the same totals sequentially; both must then give the
// same answers (metamorphic): the boundary of IsMaxBlockSizeWithoutThrottleReached(extraMb, t) is
// bisected on both for several extraMb. Repeated 25 times per case (Init in between) with long enough
// bursts that the goroutines really overlap.
func concurrentAdds(r *vk.Run, c *vk.Case, m marshal.Marshalizer) {
	rng := c.Rng
	mk := func() fullSizer {
		th, _ := throttle.NewBlockSizeThrottle(prodMinSize, prodMaxSize)
		s, err := preprocess.NewBlockSizeComputation(m, th, prodMaxSize)
		if err != nil {
			return nil
		}
		return s
	}
	conc, seq := mk(), mk()
	if conc == nil || seq == nil {
		r.Inconclusive("size computation constructor failed")
		return
	}
	boundary := func(s fullSizer, extraMb int) int {
		lo, hi := -1, 60000
		for lo < hi {
			mid := (lo + hi + 1) / 2
			if s.IsMaxBlockSizeWithoutThrottleReached(extraMb, mid) {
				hi = mid - 1
			} else {
				lo = mid
			}
		}
		return lo
	}
	type plan struct{ mbOps, txOps, txInc int }
	reps := 25
	workers, totalMb, totalTx := 0, 0, 0
	for rep := 0; rep < reps; rep++ {
		conc.Init()
		seq.Init()
		workers = 4 + rng.Intn(9)
		plans := make([]plan, workers)
		totalMb, totalTx = 0, 0
		budget := 12000 + rng.Intn(8000) // single-tx additions in total: the estimate stays below the cap
		for w := range plans {
			inc := 1
			if rng.Chance(1, 4) {
				inc = 2
			}
			plans[w] = plan{mbOps: 20 + rng.Intn(60), txOps: budget / workers / inc, txInc: inc}
			totalMb += plans[w].mbOps
			totalTx += plans[w].txOps * plans[w].txInc
		}
		start := make(chan struct{})
		var wg sync.WaitGroup
		for w := range plans {
			wg.Add(1)
			go func(p plan) {
				defer wg.Done()
				<-start
				mbLeft := p.mbOps
				every := p.txOps/p.mbOps + 1
				for i := 0; i < p.txOps; i++ {
					conc.AddNumTxs(p.txInc)
					if mbLeft > 0 && i%every == 0 {
						conc.AddNumMiniBlocks(1)
						mbLeft--
					}
				}
				for ; mbLeft > 0; mbLeft-- {
					conc.AddNumMiniBlocks(1)
				}
			}(plans[w])
		}
		close(start)
		wg.Wait()
		seq.AddNumMiniBlocks(totalMb)
		seq.AddNumTxs(totalTx)
		r.Count("concurrent_add_rounds", 1)
		r.Count("concurrent_add_operations", totalMb+totalTx)
		for _, extra := range []int{0, 1, rng.Intn(500)} {
			a, b := boundary(conc, extra), boundary(seq, extra)
			r.Eval(1)
			if a != b {
				r.Violation(c.Idx, "concurrent-adds-lost",
					fmt.Sprintf("%d goroutines added %d miniblocks + %d txs; afterwards the largest accepted extra tx count (with %d extra miniblocks) is %d, but %d on an instance that received the same totals sequentially (difference %d txs)",
						workers, totalMb, totalTx, extra, a, b, a-b),
					map[string]interface{}{"workers": workers, "totalMiniBlocks": totalMb, "totalTxs": totalTx, "extraMiniBlocks": extra, "boundaryConcurrent": a, "boundarySequential": b, "repetition": rep})
				return
			}
		}
	}
	r.Count("concurrent_add_cases", 1)
	r.Shape(fmt.Sprintf("concurrent-adds workers=%d mb~%d tx~%d", workers, totalMb/200*200, totalTx/4000*4000))
}
