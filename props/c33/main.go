// C33 — the block body size estimate does not undershoot beyond the safety margin.
// Monitor shape: invariant. The real blockSizeComputation with the production setting (0.9 MB, real
// block size throttler, production protobuf marshalizer): whenever IsMaxBlockSizeWithoutThrottleReached(m, t)
// is false, the marshalled block.Body with m miniblocks and t 32-byte tx hashes (any shard ids, any
// types, any distribution of the hashes) is at most 1 MB - 64 KB (libp2p maxSendBuffSize).
package main

import (
	"fmt"
	"sync"

	"github.com/ElrondNetwork/elrond-go/core"
	"github.com/ElrondNetwork/elrond-go/data/batch"
	"github.com/ElrondNetwork/elrond-go/data/block"
	"github.com/ElrondNetwork/elrond-go/marshal"
	"github.com/ElrondNetwork/elrond-go/process/block/preprocess"
	"github.com/ElrondNetwork/elrond-go/process/throttle"
	"verif/internal/vk"
)

const (
	prodMinSize  = 104857                  // config.toml BlockSizeThrottleConfig.MinSizeInBytes
	prodMaxSize  = 943718                  // config.toml BlockSizeThrottleConfig.MaxSizeInBytes (90% of 1 MB)
	networkLimit = (1 << 20) - (64 * 1024) // p2p/libp2p maxSendBuffSize
	hashLen      = 32
)

type sizer interface {
	IsMaxBlockSizeWithoutThrottleReached(numNewMiniBlocks int, numNewTxs int) bool
	IsMaxBlockSizeReached(numNewMiniBlocks int, numNewTxs int) bool
	MaxTransactionsInOneMiniblock() int
}

func newSizer(maxSize uint32) (sizer, error) {
	th, err := throttle.NewBlockSizeThrottle(prodMinSize, maxSize)
	if err != nil {
		return nil, err
	}
	return preprocess.NewBlockSizeComputation(&marshal.GogoProtoMarshalizer{}, th, maxSize)
}

// calibrated recovers the two coefficients of the linear model through the exported predicate: the
// smallest maxSize for which one miniblock (resp. one tx) still "fits"
func calibrated(forMiniblock bool) (uint32, error) {
	lo, hi := uint32(0), uint32(4096) // fits at hi, does not fit below lo
	for lo < hi {
		mid := (lo + hi) / 2
		s, err := newSizer(mid)
		if err != nil {
			return 0, err
		}
		var reached bool
		if forMiniblock {
			reached = s.IsMaxBlockSizeWithoutThrottleReached(1, 0)
		} else {
			reached = s.IsMaxBlockSizeWithoutThrottleReached(0, 1)
		}
		if reached {
			lo = mid + 1
		} else {
			hi = mid
		}
	}
	return lo, nil
}

var shardIDs = []uint32{0, 1, 2, 3, 127, 128, 255, 999, 16384, core.MetachainShardId, core.AllShardId}
var mbTypes = []block.Type{block.TxBlock, block.StateBlock, block.PeerBlock, block.SmartContractResultBlock, block.InvalidBlock, block.ReceiptBlock, block.RewardsBlock}

func main() {
	r := vk.Start("C33")
	ceiling := r.N(2048, 4000)
	r.Rule(fmt.Sprintf("one case = (miniblock count m in 0..%d, tx count t, distribution of the t hashes over the miniblocks, shard-id mode, type mode); t is the largest count for which the estimate still says 'fits' (boundary) in 2/3 of the cases, a random smaller count otherwise; bodies are built from block.MiniBlock values with 32-byte random hashes and marshalled as block.Body with the production GogoProtoMarshalizer. Non-trivial when the estimate says the body fits and m+t > 0; distinct = distinct (m bucket, distribution, id mode, type mode, boundary?) tuples. Second phase (proposer simulation): histories of 6..15 rounds on the real block size throttler + size computation driven like the block processor (ComputeCurrentMaxSize, Init, whole miniblocks of 1..10000 txs admitted through IsMaxBlockSizeWithoutThrottleReached(1,n) and registered, then from-me miniblocks filled while the throttled IsMaxBlockSizeReached is false with AddNumMiniBlocks/AddNumTxs, nine fixed probe queries on both predicates re-asked after registrations (monotonicity), marshal, Add, Succeed or not; bodies above the allowed size fail more often); styles: many tiny META/ALL reward miniblocks / mixed / few big. Third phase: 4..12 goroutines add known totals concurrently, a second instance gets the same totals sequentially, boundaries compared.", ceiling))
	r.Assume(
		fmt.Sprintf("miniblock ceiling %d per body (assumption: a body holds one miniblock per (sender, receiver, type) per included header; the linear model undershoots by up to ~9 bytes per miniblock, so the margin is exhausted near the reported break-even count)", ceiling),
		"tx hashes are 32 bytes; MiniBlock.Reserved is empty",
		"production setting: estimate cap 943718 bytes (config.toml), network limit 1 MB - 64 KB (p2p/libp2p maxSendBuffSize)",
		"shard ids from {0..3,127,128,255,999,16384,META,ALL}, all seven miniblock types",
		"the block size throttler never allows more than its configured maximum (checked as throttle-max-above-configured), which is what ties the throttled predicate to the network limit",
	)
	r.MinShapes(60)

	bsc, err := newSizer(prodMaxSize)
	if err != nil {
		r.Inconclusive("constructor failed: " + err.Error())
		r.Finish()
	}
	mbCoef, err1 := calibrated(true)
	txCoef, err2 := calibrated(false)
	if err1 != nil || err2 != nil {
		r.Inconclusive(fmt.Sprintf("could not build the size computation for the calibration: %v %v", err1, err2))
		r.Finish()
	}
	if mbCoef == 0 || txCoef == 0 {
		// the check itself does not need the coefficients (they only feed the undershoot statistics)
		r.Extra("model_coefficient_is_zero", true)
	}
	r.Extra("model_miniblock_bytes", mbCoef)
	r.Extra("model_tx_bytes", txCoef)
	r.Extra("estimate_cap_bytes", prodMaxSize)
	r.Extra("network_limit_bytes", networkLimit)
	r.Extra("miniblock_ceiling", ceiling)
	m := &marshal.GogoProtoMarshalizer{}

	var mu sync.Mutex
	maxActual, maxUnder, maxPerMbMilli := 0, 0, 0

	nStatic := r.N(500, 6000)
	nSim := r.N(120, 1500)
	nConc := r.N(80, 800)
	r.Extra("cases_static_sim_concurrent", []int{nStatic, nSim, nConc})
	r.Parallel(nStatic+nSim+nConc, func(c *vk.Case) {
		if c.Idx >= nStatic+nSim {
			concurrentAdds(r, c, m)
			return
		}
		if c.Idx >= nStatic {
			proposerSim(r, c, ceiling, m)
			return
		}
		rng := c.Rng
		var nmb int
		switch rng.Intn(8) {
		case 0:
			nmb = rng.Intn(4) // 0..3
		case 1:
			nmb = 1 + rng.Intn(20)
		case 2:
			nmb = ceiling
		case 3:
			nmb = ceiling - rng.Intn(1+ceiling/10)
		case 4:
			nmb = 1 + rng.Intn(300)
		default:
			nmb = rng.Intn(ceiling + 1)
		}
		// largest t that the estimate accepts
		lo, hi := -1, 60000
		for lo < hi {
			mid := (lo + hi + 1) / 2
			if bsc.IsMaxBlockSizeWithoutThrottleReached(nmb, mid) {
				hi = mid - 1
			} else {
				lo = mid
			}
		}
		if lo < 0 {
			r.Trivial() // the miniblocks alone do not fit by the estimate
			r.Count("cases_estimate_rejects_miniblocks_alone", 1)
			return
		}
		ntx := lo
		boundary := true
		if rng.Chance(1, 3) {
			ntx = rng.Intn(lo + 1)
			boundary = false
		}
		if bsc.IsMaxBlockSizeWithoutThrottleReached(nmb, ntx) {
			r.Count("estimate_rejects_smaller_tx_count", 1) // not required by the property: nothing to check
			r.Trivial()
			return
		}
		// the throttled predicate (fresh throttler: same maximum) can only be stricter; recorded, not required
		if bsc.IsMaxBlockSizeReached(nmb, ntx) {
			r.Count("throttled_predicate_stricter_than_unthrottled", 1)
		}
		if nmb == 0 && ntx > 0 {
			// hashes cannot exist without a miniblock; the pair (0, t) is only a query
			r.Trivial()
			return
		}
		if nmb+ntx == 0 {
			r.Trivial()
			return
		}
		distMode := rng.Intn(5)
		idMode := rng.Intn(4)
		typeMode := rng.Intn(3)
		counts := make([]int, nmb)
		switch distMode {
		case 0: // even
			for i := range counts {
				counts[i] = ntx / nmb
			}
			for i := 0; i < ntx%nmb; i++ {
				counts[i]++
			}
		case 1: // all in one miniblock
			counts[rng.Intn(nmb)] = ntx
		case 2: // random multinomial
			for i := 0; i < ntx; i++ {
				counts[rng.Intn(nmb)]++
			}
		case 3: // a few big ones, the rest empty
			k := 1 + rng.Intn(minInt(nmb, 8))
			for i := 0; i < ntx; i++ {
				counts[rng.Intn(k)]++
			}
		default: // geometric: half, quarter, ...
			left := ntx
			for i := 0; i < nmb && left > 0; i++ {
				k := (left + 1) / 2
				if i == nmb-1 {
					k = left
				}
				counts[i] = k
				left -= k
			}
		}
		body := &block.Body{}
		bt := &batch.Batch{}
		nHashes := 0
		for i := 0; i < nmb; i++ {
			mb := &block.MiniBlock{}
			switch idMode {
			case 0: // calibration ids
				mb.SenderShardID, mb.ReceiverShardID = 999, 999
			case 1: // worst case: 5-byte varints
				mb.SenderShardID, mb.ReceiverShardID = core.MetachainShardId, core.AllShardId
				if rng.Bool() {
					mb.SenderShardID, mb.ReceiverShardID = core.AllShardId, core.MetachainShardId
				}
			case 2: // small ids
				mb.SenderShardID, mb.ReceiverShardID = uint32(rng.Intn(4)), uint32(rng.Intn(4))
			default:
				mb.SenderShardID, mb.ReceiverShardID = shardIDs[rng.Intn(len(shardIDs))], shardIDs[rng.Intn(len(shardIDs))]
			}
			switch typeMode {
			case 0:
				mb.Type = block.TxBlock
			case 1:
				mb.Type = mbTypes[rng.Intn(len(mbTypes))]
			default:
				mb.Type = block.RewardsBlock
			}
			if counts[i] > 0 {
				mb.TxHashes = make([][]byte, counts[i])
				buf := rng.Bytes(counts[i] * hashLen)
				for t := 0; t < counts[i]; t++ {
					mb.TxHashes[t] = buf[t*hashLen : (t+1)*hashLen : (t+1)*hashLen]
				}
				nHashes += counts[i]
			}
			body.MiniBlocks = append(body.MiniBlocks, mb)
			mbBytes, err := m.Marshal(mb)
			if err != nil {
				r.Violation(c.Idx, "marshal-error", err.Error(), nil)
				return
			}
			bt.Data = append(bt.Data, mbBytes)
		}
		if nHashes != ntx {
			panic(fmt.Sprintf("harness bug: %d hashes placed, %d wanted", nHashes, ntx))
		}
		bodyBytes, err := m.Marshal(body)
		if err != nil {
			r.Violation(c.Idx, "marshal-error", err.Error(), nil)
			return
		}
		batchBytes, _ := m.Marshal(bt)
		actual := len(bodyBytes)
		if len(batchBytes) > actual {
			actual = len(batchBytes)
		}
		r.Eval(1)
		estimate := int(mbCoef)*nmb + int(txCoef)*ntx
		under := actual - estimate
		r.Max("largest_undershoot_bytes(actual-estimate)", int64(under))
		r.Max("largest_actual_body_bytes", int64(actual))
		mu.Lock()
		if actual > maxActual {
			maxActual = actual
		}
		if under > maxUnder {
			maxUnder = under
		}
		if nmb >= 50 && under*1000/nmb > maxPerMbMilli { // per-miniblock slope measured on bodies with many miniblocks
			maxPerMbMilli = under * 1000 / nmb
		}
		mu.Unlock()
		if len(batchBytes) != len(bodyBytes) {
			r.Count("body_and_batch_encodings_differ_in_size", 1)
		}
		if boundary {
			r.Count("boundary_cases", 1)
		}
		r.Count(fmt.Sprintf("cases_idmode_%d", idMode), 1)
		mbBucket := "m<=3"
		switch {
		case nmb > 3 && nmb <= 50:
			mbBucket = "m<=50"
		case nmb > 50 && nmb <= 500:
			mbBucket = "m<=500"
		case nmb > 500 && nmb < ceiling*9/10:
			mbBucket = "m<90%ceiling"
		case nmb >= ceiling*9/10:
			mbBucket = "m>=90%ceiling"
		}
		r.Shape(fmt.Sprintf("%s dist%d ids%d types%d boundary=%v", mbBucket, distMode, idMode, typeMode, boundary))
		if actual > networkLimit {
			r.Violation(c.Idx, "body-exceeds-network-limit",
				fmt.Sprintf("estimate says %d miniblocks + %d txs fit (estimate %d <= %d) but the body is %d bytes > %d (ids mode %d, types mode %d, distribution %d)",
					nmb, ntx, estimate, prodMaxSize, actual, networkLimit, idMode, typeMode, distMode),
				map[string]interface{}{"miniblocks": nmb, "txs": ntx, "estimate": estimate, "actual": actual, "limit": networkLimit,
					"idMode": idMode, "typeMode": typeMode, "distMode": distMode, "model_miniblock_bytes": mbCoef, "model_tx_bytes": txCoef})
		}
		if r.NeedSample() && boundary && idMode == 1 && nmb > 100 {
			r.Sample(map[string]interface{}{"miniblocks": nmb, "txs": ntx, "distribution": distMode, "ids": "META/ALL", "typeMode": typeMode,
				"estimate_bytes": estimate, "actual_bytes": actual, "limit": networkLimit})
		}
	})

	// margin summary
	r.Extra("largest_undershoot_bytes", maxUnder)
	r.Extra("largest_actual_body_bytes", maxActual)
	r.Extra("remaining_margin_bytes", networkLimit-maxActual)
	r.Extra("design_margin_bytes", networkLimit-prodMaxSize)
	r.Extra("largest_undershoot_per_miniblock_bytes", float64(maxPerMbMilli)/1000)
	if maxPerMbMilli > 0 {
		r.Extra("break_even_miniblocks_estimated", (networkLimit-prodMaxSize)*1000/maxPerMbMilli)
	}
	r.Extra("note", "remaining_margin_bytes = network limit - largest actual body seen; break_even_miniblocks_estimated = (network limit - estimate cap) / largest per-miniblock undershoot (bodies with >= 50 miniblocks)")
	r.Finish()
}

func minInt(a, b int) int {
	if a < b {
		return a
	}
	return b
}
