// C36, second clause: "splitting rewards between a delegation owner and delegators this way hands out
// exactly the rewards to distribute" — checked through the REAL delegation contract on a metachain
// test node (environment of C38, package verif/internal/sysc).
//
// Each case is one history of real transactions against one delegation contract; end-of-epoch rewards
// go through the real EpochStartSystemSCProcessor.ProcessDelegationRewards. Two oracles:
//
//	(a) per reward epoch, when every delegator record has an active fund: the amount by which
//	    getClaimableRewards of each account grows when the epoch's rewards are registered equals
//	    floor((R - ownerShare) * stake / totalActive) (+ ownerShare for the owner), with
//	    ownerShare = floor(R * D(fee/maxFee)); hence owner + delegators shares == R minus the
//	    rounding dust (at most one unit per delegator, it stays in the contract's balance).
//	(b) globally, after every operation: claimed + re-delegated + sum(getClaimableRewards) <= rewards
//	    received.
//
// Violation keys:
//
//	delegation-split over-distribution class=after-refund-of-emptied-delegator   (b) fails in a history
//	    where an account without active fund delegated again after rewards had arrived (stale
//	    RewardsCheckpoint; known finding)
//	delegation-split over-distribution class=other     (b) fails in any other history, or one epoch hands out more than R
//	delegation-split under-distribution                one epoch hands out less than R - dust bound
//	delegation-split not-exact class=continuously-active   an individual share differs from the formula
//	delegation-split claim-mismatch                    claimRewards pays something else than getClaimableRewards announced
package main

import (
	"bytes"
	"encoding/hex"
	"fmt"
	"math/big"
	"strconv"
	"strings"

	logger "github.com/ElrondNetwork/elrond-go-logger"
	"github.com/ElrondNetwork/elrond-go/core"
	"github.com/ElrondNetwork/elrond-go/data/block"
	"github.com/ElrondNetwork/elrond-go/data/rewardTx"
	"github.com/ElrondNetwork/elrond-go/data/smartContractResult"
	"github.com/ElrondNetwork/elrond-go/dataRetriever/dataPool"
	"github.com/ElrondNetwork/elrond-go/integrationTests"
	"github.com/ElrondNetwork/elrond-go/vm"
	ssc "github.com/ElrondNetwork/elrond-go/vm/systemSmartContracts"
	vmcommon "github.com/ElrondNetwork/elrond-vm-common"

	"verif/internal/sysc"
	"verif/internal/vk"
)

// delegCaseBase separates the case indices of the delegation phase from those of the pure-function
// phase, so that a replay file identifies its phase.
const delegCaseBase = 1000000

const delegMaxServiceFee = 100000 // DelegationSystemSCConfig.MaxServiceFee of the test node

const (
	keyOverKnown = "delegation-split over-distribution class=after-refund-of-emptied-delegator"
	keyOverOther = "delegation-split over-distribution class=other"
	keyUnder     = "delegation-split under-distribution"
	keyNotExact  = "delegation-split not-exact class=continuously-active"
	keyClaim     = "delegation-split claim-mismatch"
)

func dhx(b []byte) string  { return hex.EncodeToString(b) }
func dbi(v int64) *big.Int { return big.NewInt(v) }

// delegationRuleText / delegationAssumptions extend the run's rule and assumptions
const delegationRuleText = " DELEGATION PHASE (counters and shapes prefixed deleg_): one case = one history of 40-70 real transactions (delegate, unDelegate, withdraw, claimRewards, reDelegateRewards, changeServiceFee) against one delegation contract with 3-5 delegators plus the owner on a metachain test node; an epoch change registers rewards through EpochStartSystemSCProcessor.ProcessDelegationRewards. Histories with an even index never undelegate a whole stake, so no account is ever without active fund (the known stale-checkpoint shape cannot occur and every reward epoch is checked for exactness); odd histories allow it. About every eighth step starts a scripted scenario: \"late joiner\" (rewards registered for a new epoch, then a brand-new address delegates in the same epoch, then old and new delegators claim in this and the next epoch; a new delegator must have nothing claimable) or \"staggered unbond\" (undelegations in consecutive epochs, withdraw while only the oldest fund has matured; unbond period 1-3 epochs written into the stored configuration). Shape of a reward epoch: (#delegators, fee class, reward class, dust, all active)."

func delegationAssumptions() []string {
	return []string{
		"delegation phase: integrationTests.TestProcessorNode wiring is the trusted base; all enable epochs are 0 and histories start at epoch 1 with the epoch notifier informed of every epoch change (the delegation contract uses GetIntTrimmedPercentageOfValue only for epoch > StakingV2EnableEpoch; at epoch 0 it would use the big.Float approximation)",
		"delegation phase: per epoch each account is credited floor((R-ownerShare)*stake/totalActive); the rounding dust (R - ownerShare - sum of floors, at most #delegators-1 units) is credited to nobody and stays in the contract's balance; exactness (a) is only demanded for reward epochs in which every delegator record has an active fund and total active > 0 (an owner without active fund forfeits or defers his share by design of computeAndUpdateRewards)",
		"delegation phase: ownerShare is recomputed as floor(R * D(p)) with p = float64(fee)/100000 and D the shortest decimal of p (the oracle of the pure-function phase)",
	}
}

type delegHistory struct {
	r     *vk.Run
	idx   int // reported case index (delegCaseBase + i)
	e     *sysc.Env
	sc    []byte
	owner []byte
	users [][]byte
	uname map[string]string
	log   []string
	fee   int64
	avoid bool

	received, claimed, redelegated *big.Int
	reFunded                       bool
	stopped                        bool
	nFresh                         int
	unbond                         uint32
}

func (h *delegHistory) logf(f string, a ...interface{}) { h.log = append(h.log, fmt.Sprintf(f, a...)) }

func (h *delegHistory) viol(key, what string, extra map[string]interface{}) {
	d := map[string]interface{}{"phase": "delegation", "ops": append([]string(nil), h.log...), "what": what, "no_full_undelegation_mode": h.avoid}
	for k, v := range extra {
		d[k] = v
	}
	h.r.Violation(h.idx, key, what, d)
	h.stopped = true
}

type delegSnap struct {
	records map[string]*ssc.DelegatorData
	active  map[string]*big.Int
	total   *big.Int
}

func (h *delegHistory) snapshot() *delegSnap {
	m := integrationTests.TestMarshalizer
	st := h.e.Storage(h.sc)
	s := &delegSnap{records: map[string]*ssc.DelegatorData{}, active: map[string]*big.Int{}, total: dbi(0)}
	for _, u := range h.users {
		raw, ok := st[string(u)]
		if !ok || len(raw) == 0 {
			continue
		}
		dd := &ssc.DelegatorData{}
		if m.Unmarshal(dd, raw) != nil {
			continue
		}
		s.records[string(u)] = dd
		a := dbi(0)
		if len(dd.ActiveFund) > 0 {
			f := &ssc.Fund{}
			if fr, ok := st[string(dd.ActiveFund)]; ok && m.Unmarshal(f, fr) == nil && f.Value != nil {
				a.Set(f.Value)
			}
		}
		s.active[string(u)] = a
		s.total.Add(s.total, a)
	}
	return s
}

func (h *delegHistory) claimable(u []byte) *big.Int {
	v := h.e.Query(h.sc, "getClaimableRewards", u)
	if len(v) != 1 {
		return nil
	}
	return big.NewInt(0).SetBytes(v[0])
}

// global oracle (b)
func (h *delegHistory) checkGlobal(s *delegSnap, op string) {
	promised := big.NewInt(0).Add(h.claimed, h.redelegated)
	for _, u := range h.users {
		if _, ok := s.records[string(u)]; !ok {
			continue
		}
		if c := h.claimable(u); c != nil {
			promised.Add(promised, c)
		}
	}
	h.r.Eval(1)
	h.r.Count("deleg_global_checks", 1)
	if promised.Cmp(h.received) > 0 {
		key := keyOverOther
		if h.reFunded {
			key = keyOverKnown
		}
		h.r.Count("deleg_global_overdistribution", 1)
		h.viol(key, fmt.Sprintf("after %s: claimed %s + re-delegated %s + claimable = %s > rewards received %s", op, h.claimed, h.redelegated, promised, h.received), nil)
		return
	}
	left := big.NewInt(0).Sub(h.received, promised)
	if left.IsInt64() {
		h.r.Max("deleg_max_undistributed", left.Int64())
	}
}

func exactOwnerShare(R *big.Int, fee int64) *big.Int {
	p := float64(fee) / float64(delegMaxServiceFee)
	dec := strconv.FormatFloat(p, 'e', -1, 64)
	rat, _ := big.NewRat(0, 1).SetString(dec)
	w := big.NewRat(0, 1).Mul(rat, big.NewRat(0, 1).SetInt(R))
	return big.NewInt(0).Quo(w.Num(), w.Denom())
}

// rewardEpoch advances the epoch, registers rewards through the real epoch-start processor and applies oracle (a)
func (h *delegHistory) rewardEpoch(rng *vk.Rand, s *delegSnap, f *delegPlanned) {
	e := h.e
	inc := uint32(1 + rng.Intn(2)*rng.Intn(2))
	none := rng.Intn(5) == 0
	if f != nil {
		inc = 1
		if f.amt >= 0 {
			none = f.amt == 0
		}
	}
	e.Epoch += inc
	e.SetHeader()
	if none {
		h.logf("epoch -> %d, no rewards", e.Epoch)
		h.r.Count("deleg_op:epoch/ok", 1)
		return
	}
	var R *big.Int
	rclass := ""
	switch rng.Intn(6) {
	case 0:
		R, rclass = dbi(int64(rng.Intn(10))), "tiny"
	case 1:
		R, rclass = dbi(int64(rng.Intn(1000))), "small"
	case 2:
		R, rclass = big.NewInt(0).Mul(dbi(int64(1+rng.Intn(1000000))), big.NewInt(0).Exp(dbi(10), dbi(int64(12+rng.Intn(10))), nil)), "egld-scale"
	default:
		R, rclass = dbi(int64(rng.Intn(1000000))), "medium"
	}
	if f != nil && f.amt > 0 {
		R, rclass = dbi(f.amt), "medium"
	}
	before := map[string]*big.Int{}
	allActive := s.total.Sign() > 0
	n := 0
	for _, u := range h.users {
		if _, ok := s.records[string(u)]; !ok {
			continue
		}
		n++
		before[string(u)] = h.claimable(u)
		if s.active[string(u)].Sign() == 0 {
			allActive = false
		}
	}
	rt := &rewardTx.RewardTx{Value: R, RcvAddr: h.sc, Epoch: e.Epoch}
	b, _ := integrationTests.TestMarshalizer.Marshal(rt)
	hash := integrationTests.TestHasher.Compute(string(b))
	cache, _ := dataPool.NewCurrentBlockPool()
	cache.AddTx(hash, rt)
	err := e.Tpn.EpochStartSystemSCProcessor.ProcessDelegationRewards(block.MiniBlockSlice{&block.MiniBlock{TxHashes: [][]byte{hash}, ReceiverShardID: core.MetachainShardId, Type: block.RewardsBlock}}, cache)
	h.logf("epoch -> %d, rewards %s, fee %d, total active %s, %d delegators (err %v)", e.Epoch, R, h.fee, s.total, n, err)
	if err != nil {
		h.r.Count("deleg_op:epoch+rewards/failed", 1)
		return
	}
	h.r.Count("deleg_op:epoch+rewards/ok", 1)
	h.received.Add(h.received, R)
	if !allActive {
		h.r.Count("deleg_reward_epochs_not_all_active(exactness not demanded)", 1)
		return
	}
	// oracle (a)
	ownerShare := exactOwnerShare(R, h.fee)
	rest := big.NewInt(0).Sub(R, ownerShare)
	sum := dbi(0)
	type row struct {
		who             string
		stake, got, exp *big.Int
	}
	var rows []row
	mismatch := ""
	for _, u := range h.users {
		if _, ok := s.records[string(u)]; !ok {
			continue
		}
		after := h.claimable(u)
		if after == nil || before[string(u)] == nil {
			h.viol(keyNotExact, fmt.Sprintf("getClaimableRewards failed for %s around the rewards of epoch %d", h.uname[string(u)], e.Epoch), nil)
			return
		}
		got := big.NewInt(0).Sub(after, before[string(u)])
		exp := big.NewInt(0).Mul(rest, s.active[string(u)])
		exp.Quo(exp, s.total)
		if bytes.Equal(u, h.owner) {
			exp.Add(exp, ownerShare)
		}
		sum.Add(sum, got)
		rows = append(rows, row{h.uname[string(u)], s.active[string(u)], got, exp})
		if got.Cmp(exp) != 0 && mismatch == "" {
			mismatch = fmt.Sprintf("%s (stake %s) is credited %s, formula gives %s", h.uname[string(u)], s.active[string(u)], got, exp)
		}
	}
	h.r.Eval(2)
	h.r.Count("deleg_exact_epoch_checks", 1)
	detail := func() map[string]interface{} {
		var rs []string
		for _, x := range rows {
			rs = append(rs, fmt.Sprintf("%s stake=%s credited=%s expected=%s", x.who, x.stake, x.got, x.exp))
		}
		return map[string]interface{}{"epoch": e.Epoch, "rewards": R.String(), "fee": h.fee, "owner_share_expected": ownerShare.String(), "total_active": s.total.String(), "shares": rs}
	}
	dust := big.NewInt(0).Sub(R, sum)
	switch {
	case dust.Sign() < 0:
		h.viol(keyOverOther, fmt.Sprintf("epoch %d: shares sum to %s > rewards to distribute %s", e.Epoch, sum, R), detail())
		return
	case dust.Cmp(dbi(int64(n-1))) > 0:
		h.viol(keyUnder, fmt.Sprintf("epoch %d: shares sum to %s, rewards to distribute %s, undistributed %s > dust bound %d", e.Epoch, sum, R, dust, n-1), detail())
		return
	case mismatch != "":
		h.viol(keyNotExact, fmt.Sprintf("epoch %d (R=%s fee=%d): %s", e.Epoch, R, h.fee, mismatch), detail())
		return
	}
	feeClass := "mid"
	switch {
	case h.fee == 0:
		feeClass = "0"
	case h.fee == delegMaxServiceFee:
		feeClass = "max"
	case h.fee < 100:
		feeClass = "tiny"
	}
	d := dust.Int64()
	if d > 3 {
		d = 3
	}
	h.r.Shape(fmt.Sprintf("deleg_epoch n=%d fee=%s R=%s dust=%d ownerStake=%v", n, feeClass, rclass, d, s.active[string(h.owner)].Sign() > 0))
	h.r.Max("deleg_max_dust", dust.Int64())
	if dust.Sign() > 0 {
		h.r.Count("deleg_epochs_with_dust", 1)
	}
	if h.r.Counter("deleg_samples") < 2 {
		h.r.Count("deleg_samples", 1)
		h.r.Extra(fmt.Sprintf("deleg_sample_case%d_epoch%d", h.idx, e.Epoch), detail())
	}
}

// delegPlanned is one step of a scripted scenario woven into the random history
type delegPlanned struct {
	op   int    // operation selector value
	user []byte // caller
	amt  int64  // delegate value / unDelegate amount / rewards of the epoch (epoch: -1 random, 0 none)
}

const (
	dOpDelegate   = 0
	dOpUnDelegate = 5
	dOpWithdraw   = 8
	dOpClaim      = 9
	dOpEpoch      = 1000
)

func (h *delegHistory) freshUser() []byte {
	u := bytes.Repeat([]byte{byte(0x70 + h.nFresh)}, 32)
	h.e.Mint(u, dbi(1_000_000_000_000))
	h.users = append(h.users, u)
	h.uname[string(u)] = fmt.Sprintf("f%d", h.nFresh)
	h.nFresh++
	return u
}

// schedule returns a scripted scenario: "late joiner" (rewards are registered for a new epoch, a brand-new
// address delegates in that same epoch, old and new delegators claim in this and the next epoch) or
// "staggered unbond" (one delegator undelegates in consecutive epochs, then withdraws while only the
// oldest funds have matured).
func (h *delegHistory) schedule(rng *vk.Rand, snap *delegSnap) []delegPlanned {
	var plan []delegPlanned
	active := func() [][]byte {
		var cand [][]byte
		for _, u := range h.users {
			if a := snap.active[string(u)]; a != nil && a.Sign() > 0 {
				cand = append(cand, u)
			}
		}
		return cand
	}
	if rng.Chance(2, 3) && h.nFresh < 8 {
		h.r.Count("deleg_scenario:late-joiner", 1)
		old := func() []byte {
			c := active()
			if len(c) == 0 {
				return h.owner
			}
			return c[rng.Intn(len(c))]
		}
		nu := h.freshUser()
		return []delegPlanned{
			{op: dOpEpoch, amt: int64(1000 + rng.Intn(1000000))},
			{op: dOpDelegate, user: nu, amt: int64(100 + rng.Intn(3000))},
			{op: dOpClaim, user: old()},
			{op: dOpClaim, user: nu},
			{op: dOpEpoch, amt: int64(1000 + rng.Intn(1000000))},
			{op: dOpClaim, user: nu},
			{op: dOpClaim, user: old()},
		}
	}
	h.r.Count("deleg_scenario:staggered-unbond", 1)
	var d []byte
	for _, u := range h.users[1:] {
		if a := snap.active[string(u)]; a != nil && a.Cmp(dbi(900)) >= 0 {
			d = u
		}
	}
	if d == nil {
		d = h.freshUser()
		plan = append(plan, delegPlanned{op: dOpDelegate, user: d, amt: int64(1000 + rng.Intn(500))})
	}
	k := 3 + rng.Intn(2)
	for i := 0; i < k; i++ {
		if i > 0 {
			plan = append(plan, delegPlanned{op: dOpEpoch, amt: -1})
		}
		plan = append(plan, delegPlanned{op: dOpUnDelegate, user: d, amt: int64(100 + rng.Intn(60))})
	}
	for i := k - 1; i < int(h.unbond); i++ {
		plan = append(plan, delegPlanned{op: dOpEpoch, amt: -1})
	}
	plan = append(plan, delegPlanned{op: dOpWithdraw, user: d}, delegPlanned{op: dOpEpoch, amt: -1}, delegPlanned{op: dOpWithdraw, user: d}, delegPlanned{op: dOpClaim, user: d})
	return plan
}

// setUnBondPeriod writes UnBondPeriodInEpochs into the contract's stored configuration (the test node
// hard-codes 1 epoch)
func (h *delegHistory) setUnBondPeriod(p uint32) {
	m := integrationTests.TestMarshalizer
	st := h.e.Storage(h.sc)
	cfg := &ssc.DelegationConfig{}
	if m.Unmarshal(cfg, st[ssc.VerifDelegationConfigKey]) != nil {
		return
	}
	cfg.UnBondPeriodInEpochs = p
	if b, err := m.Marshal(cfg); err == nil {
		h.e.PatchStorage(h.sc, []byte(ssc.VerifDelegationConfigKey), b)
		h.unbond = p
	}
}

// runDelegationPhase is called from main between the pure-function phase and Finish
func runDelegationPhase(r *vk.Run) {
	_ = logger.SetLogLevel("*:NONE")
	restore := sysc.QuietStdout()
	defer restore()
	n := r.N(80, 1000)
	r.Parallel(n, func(c *vk.Case) {
		i := c.Idx
		if r.ReplayCase >= 0 {
			if r.ReplayCase < delegCaseBase {
				return // a replay of the pure-function phase
			}
			i = r.ReplayCase - delegCaseBase
		}
		runDelegationHistory(r, i)
	})
	if r.ReplayCase < 0 {
		if r.Counter("deleg_exact_epoch_checks") < int64(n) {
			r.Inconclusive(fmt.Sprintf("delegation phase: only %d reward epochs were checked for exactness", r.Counter("deleg_exact_epoch_checks")))
		}
		if r.Counter("deleg_claims_nonzero") == 0 {
			r.Inconclusive("delegation phase: no non-zero claim was observed")
		}
	}
}

func runDelegationHistory(r *vk.Run, i int) {
	rng := r.Rng(i, 36)
	e := sysc.New()
	e.NotifyEpochs = true
	e.Epoch = 1 // the delegation contract switches to GetIntTrimmedPercentageOfValue for epoch > StakingV2EnableEpoch (0)
	e.SetHeader()
	owner := e.Tpn.OwnAccount.Address
	e.Mint(owner, dbi(1_000_000_000_000))
	h := &delegHistory{r: r, idx: delegCaseBase + i, e: e, owner: owner, uname: map[string]string{}, avoid: i%2 == 0,
		received: dbi(0), claimed: dbi(0), redelegated: dbi(0)}
	deposit := int64(100 + rng.Intn(2500))
	fees := []int64{0, 1, 7, 333, 1000, 5000, 10000, 33333, 99999, 100000}
	h.fee = fees[rng.Intn(len(fees))]
	if rng.Chance(1, 2) {
		h.fee = int64(rng.Intn(delegMaxServiceFee + 1))
	}
	e.CleanSCRs()
	rc, err := e.Tx(owner, vm.DelegationManagerSCAddress, "createNewDelegationContract@"+dhx(dbi(0).Bytes())+"@"+dhx(dbi(h.fee).Bytes()), dbi(deposit))
	if err != nil || rc != vmcommon.Ok {
		r.Inconclusive(fmt.Sprintf("delegation phase: createNewDelegationContract failed in case %d: %v %v", i, rc, err))
		return
	}
	for _, s := range e.SCRs() {
		if scr, ok := s.(*smartContractResult.SmartContractResult); ok && bytes.Equal(scr.RcvAddr, owner) {
			tk := strings.Split(string(scr.GetData()), "@")
			if len(tk) > 2 {
				h.sc, _ = hex.DecodeString(tk[2])
			}
		}
	}
	if len(h.sc) == 0 {
		r.Inconclusive("delegation phase: new contract address not found")
		return
	}
	h.logf("create deposit=%d fee=%d", deposit, h.fee)
	h.users = [][]byte{owner}
	h.uname[string(owner)] = "owner"
	for k := 0; k < 3+rng.Intn(3); k++ {
		u := bytes.Repeat([]byte{byte(0x40 + k)}, 32)
		e.Mint(u, dbi(1_000_000_000_000))
		h.users = append(h.users, u)
		h.uname[string(u)] = fmt.Sprintf("d%d", k)
	}
	h.unbond = 1
	h.setUnBondPeriod([]uint32{1, 2, 3}[rng.Intn(3)])
	snap := h.snapshot()
	steps := 40 + rng.Intn(31)
	var plan []delegPlanned
	for step := 0; (step < steps || len(plan) > 0) && !h.stopped; step++ {
		e.Nonce++
		e.SetHeader()
		if len(plan) == 0 && step < steps && rng.Chance(1, 8) {
			plan = h.schedule(rng, snap)
		}
		var f *delegPlanned
		if len(plan) > 0 {
			f = &delegPlanned{}
			*f = plan[0]
			plan = plan[1:]
		}
		op := rng.Intn(20)
		if f != nil {
			op = f.op
		}
		if op >= 14 {
			h.rewardEpoch(rng, snap, f)
			if h.stopped {
				return
			}
			snap = h.snapshot()
			h.checkGlobal(snap, "epoch")
			continue
		}
		pick := func(pred func(u []byte) bool, num, den int) []byte {
			if rng.Chance(num, den) {
				var cand [][]byte
				for _, x := range h.users {
					if pred(x) {
						cand = append(cand, x)
					}
				}
				if len(cand) > 0 {
					return cand[rng.Intn(len(cand))]
				}
			}
			return h.users[rng.Intn(len(h.users))]
		}
		hasRecord := func(x []byte) bool { _, ok := snap.records[string(x)]; return ok }
		hasActive := func(x []byte) bool { return snap.active[string(x)] != nil && snap.active[string(x)].Sign() > 0 }
		var u []byte
		var name, dataField string
		value := dbi(0)
		switch {
		case op <= 4:
			name, dataField = "delegate", "delegate"
			u = h.users[rng.Intn(len(h.users))]
			value = dbi(int64(100 + rng.Intn(400)))
			if rng.Chance(1, 8) {
				value = dbi(int64(1 + rng.Intn(120)))
			}
			if rng.Chance(1, 8) {
				value = dbi(int64(1000 + rng.Intn(100000)))
			}
			if f != nil {
				u, value = f.user, dbi(f.amt)
			}
		case op <= 7:
			name = "unDelegate"
			u = pick(hasActive, 11, 12)
			act := dbi(0)
			if snap.active[string(u)] != nil {
				act.Set(snap.active[string(u)])
			}
			var amt *big.Int
			sel := rng.Intn(6)
			if h.avoid && sel <= 1 {
				sel = 2
			}
			switch sel {
			case 0, 1:
				amt = big.NewInt(0).Set(act) // everything: leaves the account without active fund
			case 2, 3:
				amt = big.NewInt(0).Sub(act, dbi(int64(100+rng.Intn(50))))
			default:
				amt = dbi(int64(1 + rng.Intn(300)))
			}
			if h.avoid && amt.Cmp(act) >= 0 {
				amt = big.NewInt(0).Sub(act, dbi(100))
			}
			if amt.Sign() <= 0 {
				amt = dbi(1)
			}
			if f != nil {
				u, amt = f.user, dbi(f.amt)
			}
			dataField = "unDelegate@" + dhx(amt.Bytes())
		case op == 8:
			name, dataField = "withdraw", "withdraw"
			u = pick(hasRecord, 5, 6)
		case op <= 11:
			name, dataField = "claimRewards", "claimRewards"
			u = pick(hasRecord, 7, 8)
		case op == 12:
			name, dataField = "reDelegateRewards", "reDelegateRewards"
			u = pick(hasRecord, 7, 8)
		default:
			name = "changeServiceFee"
			u = owner
			nf := int64(rng.Intn(delegMaxServiceFee + 1))
			if rng.Chance(1, 3) {
				nf = fees[rng.Intn(len(fees))]
			}
			dataField = "changeServiceFee@" + dhx(dbi(nf).Bytes())
			value = dbi(nf) // carried to the bookkeeping below, the transaction value stays 0
		}
		if f != nil && f.user != nil {
			u = f.user
		}
		un := h.uname[string(u)]
		txValue := value
		if name == "changeServiceFee" {
			txValue = dbi(0)
		}
		var announced *big.Int
		if name == "claimRewards" {
			announced = h.claimable(u)
		}
		balSC := e.Balance(h.sc)
		e.CleanSCRs()
		rc, err = e.Tx(u, h.sc, dataField, txValue)
		accepted := err == nil && rc == vmcommon.Ok
		outcome := "ok"
		if !accepted {
			outcome = "rejected"
		}
		h.logf("%s %s value=%s epoch %d -> %s", un, dataField, txValue, e.Epoch, outcome)
		r.Count("deleg_op:"+name+"/"+outcome, 1)
		dSC := big.NewInt(0).Sub(e.Balance(h.sc), balSC)
		if accepted {
			switch name {
			case "claimRewards":
				out := big.NewInt(0).Neg(dSC)
				h.claimed.Add(h.claimed, out)
				if out.Sign() > 0 {
					r.Count("deleg_claims_nonzero", 1)
				}
				r.Eval(1)
				if announced != nil && out.Cmp(announced) != 0 {
					h.viol(keyClaim, fmt.Sprintf("claimRewards by %s paid %s, getClaimableRewards announced %s", un, out, announced), nil)
					return
				}
			case "reDelegateRewards":
				h.redelegated.Add(h.redelegated, big.NewInt(0).Neg(dSC))
			case "changeServiceFee":
				h.fee = value.Int64()
			}
			// the known shape: an existing record without active fund gets one again after rewards arrived
			if _, had := snap.records[string(u)]; (name == "delegate" || name == "reDelegateRewards") && had && snap.active[string(u)].Sign() == 0 && h.received.Sign() > 0 {
				h.reFunded = true
				r.Count("deleg_refund_of_emptied_delegator_after_rewards", 1)
			}
			// a brand-new delegator has earned nothing yet, whatever was registered for the current epoch
			if _, had := snap.records[string(u)]; name == "delegate" && !had {
				r.Eval(1)
				r.Count("deleg_new_delegator_checks", 1)
				if h.received.Sign() > 0 {
					r.Count("deleg_new_delegator_joined_after_rewards", 1)
				}
				if c := h.claimable(u); c == nil || c.Sign() != 0 {
					h.viol(keyOverOther, fmt.Sprintf("new delegator %s joined in epoch %d and is immediately credited %v for rewards distributed before he had any stake", un, e.Epoch, c), nil)
					return
				}
			}
		}
		snap = h.snapshot()
		h.checkGlobal(snap, name)
	}
	r.Count("deleg_histories", 1)
	if h.avoid {
		r.Count("deleg_histories_without_full_undelegation", 1)
	}
}
