// C36 — taking a percentage of an amount is exact (rounded down) and bounded.
// Monitor shape: reference model. core.GetIntTrimmedPercentageOfValue(v, p) against floor(v * D(p)),
// D(p) = the shortest decimal that round-trips to the float64 p (produced independently with the 'e'
// format and evaluated with big.Rat), plus 0 <= result <= v. (The delegation-split half of C36 lives
// in the delegation harness.)
package main

import (
	"fmt"
	"math"
	"math/big"
	"strconv"

	"github.com/ElrondNetwork/elrond-go/core"
	"verif/internal/vk"
)

func genP(rng *vk.Rand) (float64, string) {
	switch rng.Intn(14) {
	case 0:
		d := 1 + rng.Intn(6)
		den := math.Pow10(d)
		return float64(rng.Intn(int(den)+1)) / den, fmt.Sprintf("grid-1e-%d", d)
	case 1:
		return float64(rng.Intn(10001)) / 10000, "grid-1e-4"
	case 2:
		return rng.Float(), "uniform"
	case 3: // random bit pattern below 1.0
		p := math.Float64frombits(rng.U64() % 0x3ff0000000000001)
		return p, "random-bits"
	case 4: // subnormals
		p := math.Float64frombits(1 + rng.U64()%0x000fffffffffffff)
		return p, "subnormal"
	case 5:
		return []float64{0, 1, math.SmallestNonzeroFloat64, 0.1, 0.3333333333333333, 1e-9, 0.5, 0.25, 1e-300, 2.2250738585072014e-308}[rng.Intn(10)], "special"
	case 6: // 1 - eps
		p := 1.0
		for i := 0; i <= rng.Intn(40); i++ {
			p = math.Nextafter(p, 0)
		}
		return p, "1-eps"
	case 7: // neighbours of grid points
		p := float64(rng.Intn(101)) / 100
		if rng.Bool() {
			p = math.Nextafter(p, 2)
		} else {
			p = math.Nextafter(p, -1)
		}
		if p < 0 {
			p = 0
		}
		if p > 1 {
			p = 1
		}
		return p, "grid-neighbour"
	case 8: // powers of two and ten
		if rng.Bool() {
			return math.Ldexp(1, -rng.Intn(1075)), "pow2"
		}
		return math.Pow10(-rng.Intn(324)), "pow10"
	case 9: // random mantissa with a random small exponent
		m := 1 + rng.Float()
		return math.Ldexp(m, -1-rng.Intn(1022)), "random-mantissa-exp"
	case 10: // typical protocol percentages with few digits
		return float64(rng.Intn(1000)) / 1000, "grid-1e-3"
	case 11: // 17 significant digits
		p := rng.Float()
		p = math.Nextafter(p, 2)
		if p > 1 {
			p = 1
		}
		return p, "uniform-neighbour"
	default:
		return math.Ldexp(float64(rng.U64()>>11), -53-rng.Intn(30)), "random-mantissa"
	}
}

func genV(rng *vk.Rand) (*big.Int, string) {
	switch rng.Intn(10) {
	case 0:
		return big.NewInt(int64(rng.Intn(3))), "0..2"
	case 1:
		return big.NewInt(int64(rng.Intn(100000))), "small"
	case 2:
		return big.NewInt(0).Exp(big.NewInt(10), big.NewInt(int64(rng.Intn(91))), nil), "pow10"
	case 3:
		v := big.NewInt(0).Lsh(big.NewInt(1), uint(rng.Intn(301)))
		if rng.Bool() {
			v.Sub(v, big.NewInt(1))
		}
		return v, "pow2(-1)"
	case 4: // eGLD-scale amounts
		v := big.NewInt(0).Exp(big.NewInt(10), big.NewInt(18), nil)
		return v.Mul(v, big.NewInt(int64(rng.Intn(20000000)))), "egld"
	default:
		bits := uint(1 + rng.Intn(300))
		b := rng.Bytes(int(bits+7) / 8)
		v := big.NewInt(0).SetBytes(b)
		v.Rsh(v, uint(len(b)*8)-bits)
		return v, "random-bits"
	}
}

func main() {
	r := vk.Start("C36")
	r.Rule("one evaluation = (value v, percentage p): v from {0..2, small, 10^k, 2^k(-1), eGLD-scale, random up to 2^300}; p from float64 in [0,1]: decimal grids 1e-1..1e-6, uniform, random bit patterns, subnormals, specials (0, 1, smallest subnormal, 0.1, 1/3, ...), 1-k*ulp, neighbours of grid points, powers of 2 and 10, random mantissa/exponent. Non-trivial when v > 0 and 0 < p < 1; distinct = distinct (p class, v class, number of significant decimal digits of p) tuples." + delegationRuleText)
	r.Assume(
		"D(p) is the shortest decimal string that parses back to p (strconv 'e' format, checked with ParseFloat), evaluated exactly with big.Rat; this is what 'exact percentage' means for a float64 input (GetIntTrimmedPercentageOfValue(10^36, 0.1) == 10^35)",
		"percentages outside [0,1], NaN and negative values are outside the property's domain",
	)
	r.Assume(delegationAssumptions()...)
	r.MinShapes(150)
	perCase := 500
	nCases := r.N(600, 12000)

	r.Parallel(nCases, func(c *vk.Case) {
		if c.Idx >= delegCaseBase {
			return // a replay of the delegation phase (see delegation.go)
		}
		for i := 0; i < perCase; i++ {
			p, pc := genP(c.Rng)
			if !(p >= 0 && p <= 1) {
				panic(fmt.Sprintf("harness bug: p=%v class %s", p, pc))
			}
			v, vc := genV(c.Rng)
			vCopy := big.NewInt(0).Set(v)

			dec := strconv.FormatFloat(p, 'e', -1, 64)
			if back, err := strconv.ParseFloat(dec, 64); err != nil || back != p {
				r.Inconclusive(fmt.Sprintf("oracle base broken: %q does not parse back to %v", dec, p))
				return
			}
			rat, ok := big.NewRat(0, 1).SetString(dec)
			if !ok {
				r.Inconclusive("big.Rat cannot parse " + dec)
				return
			}
			w := big.NewRat(0, 1).Mul(rat, big.NewRat(0, 1).SetInt(v))
			want := big.NewInt(0).Quo(w.Num(), w.Denom()) // floor for non-negative values

			got := core.GetIntTrimmedPercentageOfValue(v, p)
			r.Eval(2)
			digits := 0
			for _, ch := range dec {
				if ch == 'e' {
					break
				}
				if ch >= '0' && ch <= '9' {
					digits++
				}
			}
			if v.Sign() > 0 && p > 0 && p < 1 {
				r.Shape(fmt.Sprintf("p=%s v=%s digits=%d", pc, vc, digits))
			} else {
				r.Trivial()
			}
			detail := func() map[string]interface{} {
				return map[string]interface{}{"value": vCopy.String(), "percentage": dec, "percentage_bits": fmt.Sprintf("%#016x", math.Float64bits(p)),
					"got": got.String(), "want_floor(v*D(p))": want.String(), "p_class": pc, "v_class": vc}
			}
			if v.Cmp(vCopy) != 0 {
				r.Violation(c.Idx, "argument-mutated", fmt.Sprintf("value %s became %s", vCopy, v), detail())
			}
			if got.Cmp(want) != 0 {
				r.Violation(c.Idx, "not-floor(v*p)", fmt.Sprintf("GetIntTrimmedPercentageOfValue(%s, %s) = %s, floor(v*p) = %s (diff %s)", vCopy, dec, got, want, big.NewInt(0).Sub(got, want)), detail())
			}
			if got.Sign() < 0 || got.Cmp(vCopy) > 0 {
				r.Violation(c.Idx, "out-of-[0,v]", fmt.Sprintf("GetIntTrimmedPercentageOfValue(%s, %s) = %s", vCopy, dec, got), detail())
			}
			// discrimination: on how many inputs does the approximate (big.Float) variant differ from the exact one
			approx := core.GetApproximatePercentageOfValue(vCopy, p)
			if approx.Cmp(want) != 0 {
				r.Count("inputs_where_GetApproximatePercentageOfValue_differs_from_exact", 1)
			}
			r.Count("p_class_"+pc, 1)
			if r.NeedSample() && v.BitLen() > 80 && digits >= 15 {
				r.Sample(detail())
			}
		}
	})
	if r.Counter("inputs_where_GetApproximatePercentageOfValue_differs_from_exact") == 0 && r.ReplayCase < 0 {
		r.Inconclusive("no input distinguished the exact variant from GetApproximatePercentageOfValue: the generator is not discriminating")
	}
	runDelegationPhase(r)
	r.Finish()
}
