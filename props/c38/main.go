// C38 — delegation contract bookkeeping stays consistent (plus the delegation half of C36 as a
// counter-only oracle).
//
// Monitor shape: invariant + conservation checks over random histories of REAL transactions against
// one delegation contract on a metachain test node (real TxProcessor / scProcessor / system VM / eei /
// AccountsDB); end-of-epoch rewards go through the real EpochStartSystemSCProcessor. After every
// operation the contract's raw storage is read from its data trie, decoded with the exported protobuf
// types and compared with (a) itself (sums, references), (b) the view functions, (c) money flows
// observed on account balances (never on the contract's own counters).
package main

import (
	"bytes"
	"encoding/hex"
	"fmt"
	"math/big"
	"os"
	"strings"

	logger "github.com/ElrondNetwork/elrond-go-logger"
	"github.com/ElrondNetwork/elrond-go/core"
	"github.com/ElrondNetwork/elrond-go/data/block"
	"github.com/ElrondNetwork/elrond-go/data/rewardTx"
	"github.com/ElrondNetwork/elrond-go/data/smartContractResult"
	"github.com/ElrondNetwork/elrond-go/dataRetriever/dataPool"
	"github.com/ElrondNetwork/elrond-go/integrationTests"
	"github.com/ElrondNetwork/elrond-go/vm"
	ssc "github.com/ElrondNetwork/elrond-go/vm/systemSmartContracts"
	vmcommon "github.com/ElrondNetwork/elrond-vm-common"

	"verif/internal/sysc"
	"verif/internal/vk"
)

func hx(b []byte) string { return hex.EncodeToString(b) }

func bi(v int64) *big.Int { return big.NewInt(v) }

type history struct {
	r   *vk.Run
	c   *vk.Case
	e   *sysc.Env
	sc  []byte
	own []byte

	users    [][]byte
	userName map[string]string
	blsKeys  [][]byte

	log []string

	// money flows observed on account balances
	undelegatedReq *big.Int // sum of the amounts of accepted unDelegate transactions (upper bound of undelegated)
	withdrawn      *big.Int // sum of what the validator contract released on accepted withdraws
	rewardsIn      *big.Int // sum of the values of accepted updateRewards
	rewardsPaid    *big.Int // sum of what left the contract's balance on accepted claimRewards
	rewardsReDeleg *big.Int // same for accepted reDelegateRewards

	stopped  bool
	avoid    bool   // this history never re-funds an emptied delegator record (the known stale-checkpoint shape cannot occur)
	unbond   uint32 // UnBondPeriodInEpochs written into the contract's configuration
	nFresh   int
	reFunded bool // an existing delegator without active fund delegated again after rewards were received
	overSeen bool
}

func (h *history) logf(f string, a ...interface{}) { h.log = append(h.log, fmt.Sprintf(f, a...)) }

func (h *history) viol(key, what string, extra map[string]interface{}) {
	d := map[string]interface{}{"ops": append([]string(nil), h.log...), "what": what}
	for k, v := range extra {
		d[k] = v
	}
	h.r.Violation(h.c.Idx, key, what, d)
	h.stopped = true // one report per history; later states follow from the first bad one
}

// planned is one step of a scripted scenario woven into the random history
type planned struct {
	op   int    // value of the operation selector
	user []byte // caller (nil: chosen as usual)
	amt  int64  // delegate value / unDelegate amount / rewards of the epoch (epoch: -1 random, 0 none)
}

const (
	opDelegate   = 0
	opUnDelegate = 6
	opWithdraw   = 11
	opClaim      = 14
	opEpoch      = 1000
)

// setUnBondPeriod writes UnBondPeriodInEpochs into the delegation contract's stored configuration (the
// test node hard-codes 1 epoch; mainnet uses 10). The validator contract keeps its own period of 1, so it
// releases whatever the delegation contract considers matured.
func (h *history) setUnBondPeriod(p uint32) bool {
	m := integrationTests.TestMarshalizer
	st := h.e.Storage(h.sc)
	cfg := &ssc.DelegationConfig{}
	if err := m.Unmarshal(cfg, st[ssc.VerifDelegationConfigKey]); err != nil {
		return false
	}
	cfg.UnBondPeriodInEpochs = p
	b, err := m.Marshal(cfg)
	if err != nil {
		return false
	}
	h.e.PatchStorage(h.sc, []byte(ssc.VerifDelegationConfigKey), b)
	h.unbond = p
	return true
}

func (h *history) freshUser() []byte {
	u := bytes.Repeat([]byte{byte(0x60 + h.nFresh)}, 32)
	h.e.Mint(u, bi(1_000_000_000_000))
	h.users = append(h.users, u)
	h.userName[string(u)] = fmt.Sprintf("f%d", h.nFresh)
	h.nFresh++
	return u
}

type snapshot struct {
	gf         *ssc.GlobalFundData
	status     *ssc.DelegationContractStatus
	delegators map[string]*ssc.DelegatorData // by user address
	active     map[string]*big.Int
	unstaked   map[string]*big.Int
	unstEpochs map[string][]uint32 // creation epochs of each delegator's unstaked funds
	nFunds     int
}

// check decodes the raw storage and applies every storage-level oracle. ok=false when a violation was
// reported.
func (h *history) check(opName string) (*snapshot, bool) {
	m := integrationTests.TestMarshalizer
	st := h.e.Storage(h.sc)
	s := &snapshot{gf: &ssc.GlobalFundData{}, status: &ssc.DelegationContractStatus{}, delegators: map[string]*ssc.DelegatorData{}, active: map[string]*big.Int{}, unstaked: map[string]*big.Int{}, unstEpochs: map[string][]uint32{}}
	rawGF, ok := st[ssc.VerifGlobalFundKey]
	if !ok {
		h.viol("decode", "no globalFund record after "+opName, nil)
		return nil, false
	}
	if err := m.Unmarshal(s.gf, rawGF); err != nil {
		h.viol("decode", "globalFund does not decode after "+opName+": "+err.Error(), nil)
		return nil, false
	}
	if err := m.Unmarshal(s.status, st[ssc.VerifDelegationStatusKey]); err != nil {
		h.viol("decode", "delegationStatus does not decode after "+opName+": "+err.Error(), nil)
		return nil, false
	}
	sumActive, sumUnstaked := bi(0), bi(0)
	referenced := map[string]int{}
	for _, u := range h.users {
		raw, ok := st[string(u)]
		if !ok || len(raw) == 0 {
			continue
		}
		dd := &ssc.DelegatorData{}
		if err := m.Unmarshal(dd, raw); err != nil {
			h.viol("decode", "delegator record of "+h.userName[string(u)]+" does not decode after "+opName, nil)
			return nil, false
		}
		s.delegators[string(u)] = dd
		ua, uu := bi(0), bi(0)
		type ref struct {
			key    []byte
			active bool
		}
		var refs []ref
		if len(dd.ActiveFund) > 0 {
			refs = append(refs, ref{dd.ActiveFund, true})
		}
		for _, k := range dd.UnStakedFunds {
			refs = append(refs, ref{k, false})
		}
		for _, rf := range refs {
			referenced[string(rf.key)]++
			fr, ok := st[string(rf.key)]
			if !ok || len(fr) == 0 {
				h.viol("missing-fund", fmt.Sprintf("after %s: %s references fund %x which does not exist (active=%v)", opName, h.userName[string(u)], rf.key, rf.active), nil)
				return nil, false
			}
			f := &ssc.Fund{}
			if err := m.Unmarshal(f, fr); err != nil || f.Value == nil {
				h.viol("decode", fmt.Sprintf("after %s: fund %x does not decode", opName, rf.key), nil)
				return nil, false
			}
			if !bytes.Equal(f.Address, u) {
				h.viol("fund-owner", fmt.Sprintf("after %s: fund %x referenced by %s belongs to %x", opName, rf.key, h.userName[string(u)], f.Address), nil)
				return nil, false
			}
			if rf.active != (f.Type == ssc.VerifFundTypeActive) || (!rf.active && f.Type != ssc.VerifFundTypeUnStaked) {
				h.viol("fund-type", fmt.Sprintf("after %s: fund %x of %s has type %d, referenced as active=%v", opName, rf.key, h.userName[string(u)], f.Type, rf.active), nil)
				return nil, false
			}
			if f.Value.Sign() <= 0 {
				h.viol("fund-value", fmt.Sprintf("after %s: fund %x of %s has value %s", opName, rf.key, h.userName[string(u)], f.Value), nil)
				return nil, false
			}
			if rf.active {
				ua.Add(ua, f.Value)
			} else {
				uu.Add(uu, f.Value)
				s.unstEpochs[string(u)] = append(s.unstEpochs[string(u)], f.Epoch)
			}
		}
		s.active[string(u)] = ua
		s.unstaked[string(u)] = uu
		sumActive.Add(sumActive, ua)
		sumUnstaked.Add(sumUnstaked, uu)
	}
	for k, n := range referenced {
		if n != 1 {
			h.viol("fund-shared", fmt.Sprintf("after %s: fund %x is referenced %d times", opName, k, n), nil)
			return nil, false
		}
	}
	for k := range st {
		if strings.HasPrefix(k, ssc.VerifFundKeyPrefix) && len(k) > len(ssc.VerifFundKeyPrefix) {
			s.nFunds++
			if referenced[k] == 0 {
				h.viol("orphan-fund", fmt.Sprintf("after %s: fund record %x is referenced by no delegator", opName, k), nil)
				return nil, false
			}
		}
	}
	h.r.Eval(4)
	if s.gf.TotalActive == nil || s.gf.TotalActive.Cmp(sumActive) != 0 {
		h.viol("total-active", fmt.Sprintf("after %s: TotalActive %v != sum of active funds %s", opName, s.gf.TotalActive, sumActive), nil)
		return nil, false
	}
	if s.gf.TotalUnStaked == nil || s.gf.TotalUnStaked.Cmp(sumUnstaked) != 0 {
		h.viol("total-unstaked", fmt.Sprintf("after %s: TotalUnStaked %v != sum of unstaked funds %s", opName, s.gf.TotalUnStaked, sumUnstaked), nil)
		return nil, false
	}
	// the mirrored copy used by updateRewards
	if ta := big.NewInt(0).SetBytes(st[ssc.VerifTotalActiveKey]); ta.Cmp(sumActive) != 0 {
		h.viol("total-active", fmt.Sprintf("after %s: mirrored totalActive %s != sum of active funds %s", opName, ta, sumActive), nil)
		return nil, false
	}
	// money flows
	h.r.Eval(2)
	if h.withdrawn.Cmp(h.undelegatedReq) > 0 {
		h.viol("withdrawn-gt-undelegated", fmt.Sprintf("after %s: withdrawn %s > undelegated %s", opName, h.withdrawn, h.undelegatedReq), nil)
		return nil, false
	}
	paid := big.NewInt(0).Add(h.rewardsPaid, h.rewardsReDeleg)
	if paid.Cmp(h.rewardsIn) > 0 {
		h.viol("rewards-paid-gt-received", fmt.Sprintf("after %s: rewards paid %s (claimed %s, re-delegated %s) > received %s", opName, paid, h.rewardsPaid, h.rewardsReDeleg, h.rewardsIn), nil)
		return nil, false
	}
	// view functions agree with the raw storage
	h.r.Eval(1)
	if v := h.e.Query(h.sc, "getTotalActiveStake"); v == nil || len(v) != 1 || big.NewInt(0).SetBytes(v[0]).Cmp(s.gf.TotalActive) != 0 {
		h.viol("view-mismatch", fmt.Sprintf("after %s: getTotalActiveStake %x vs storage %s", opName, v, s.gf.TotalActive), nil)
		return nil, false
	}
	if v := h.e.Query(h.sc, "getTotalUnStaked"); v == nil || len(v) != 1 || big.NewInt(0).SetBytes(v[0]).Cmp(s.gf.TotalUnStaked) != 0 {
		h.viol("view-mismatch", fmt.Sprintf("after %s: getTotalUnStaked %x vs storage %s", opName, v, s.gf.TotalUnStaked), nil)
		return nil, false
	}
	for _, u := range h.users {
		_, has := s.delegators[string(u)]
		va := h.e.Query(h.sc, "getUserActiveStake", u)
		vu := h.e.Query(h.sc, "getUserUnStakedValue", u)
		if !has {
			if va != nil || vu != nil {
				h.viol("view-mismatch", fmt.Sprintf("after %s: views answer for %s who has no record", opName, h.userName[string(u)]), nil)
				return nil, false
			}
			continue
		}
		if va == nil || len(va) != 1 || big.NewInt(0).SetBytes(va[0]).Cmp(s.active[string(u)]) != 0 {
			h.viol("view-mismatch", fmt.Sprintf("after %s: getUserActiveStake(%s) %x vs storage %s", opName, h.userName[string(u)], va, s.active[string(u)]), nil)
			return nil, false
		}
		if vu == nil || len(vu) != 1 || big.NewInt(0).SetBytes(vu[0]).Cmp(s.unstaked[string(u)]) != 0 {
			h.viol("view-mismatch", fmt.Sprintf("after %s: getUserUnStakedValue(%s) %x vs storage %s", opName, h.userName[string(u)], vu, s.unstaked[string(u)]), nil)
			return nil, false
		}
	}
	// not part of the statement; reported as counters only
	if int(s.status.NumUsers) != len(s.delegators) {
		h.r.Count("numusers_mismatch(counter-only)", 1)
	}
	if bal := h.e.Balance(h.sc); bal.Cmp(big.NewInt(0).Sub(h.rewardsIn, paid)) != 0 {
		h.r.Count("sc_balance_not_rewards_minus_paid(counter-only)", 1)
	}
	// C36, delegation half (counter only): what the contract has handed out or promises to hand out
	// never exceeds the rewards it was given to distribute.
	promised := big.NewInt(0).Set(paid)
	for _, u := range h.users {
		if _, has := s.delegators[string(u)]; !has {
			continue
		}
		if v := h.e.Query(h.sc, "getClaimableRewards", u); len(v) == 1 {
			promised.Add(promised, big.NewInt(0).SetBytes(v[0]))
		}
	}
	h.r.Count("c36_split_checks", 1)
	if promised.Cmp(h.rewardsIn) > 0 {
		h.r.Count("c36_split_overdistribution", 1)
		if !h.overSeen {
			h.overSeen = true
			if h.reFunded {
				h.r.Count("c36_split_overdistribution_histories/after-refund-of-emptied-delegator", 1)
			} else {
				h.r.Count("c36_split_overdistribution_histories/other", 1)
			}
		}
		over := big.NewInt(0).Sub(promised, h.rewardsIn)
		if over.IsInt64() {
			h.r.Max("c36_split_overdistribution_max", over.Int64())
		}
		if h.r.Counter("c36_split_overdistribution") <= 2 {
			h.r.Extra(fmt.Sprintf("c36_overdistribution_witness_case%d", h.c.Idx), map[string]interface{}{"promised_or_paid": promised.String(), "received": h.rewardsIn.String(), "ops": append([]string(nil), h.log...)})
		}
	} else {
		left := big.NewInt(0).Sub(h.rewardsIn, promised)
		if left.IsInt64() {
			h.r.Max("c36_split_undistributed_max", left.Int64())
		}
	}
	return s, true
}

var debugReasons = os.Getenv("VERIF_DEBUG") != ""

// rejectReason extracts the return message of a rejected transaction from its smart contract results
func (h *history) rejectReason() string {
	for _, s := range h.e.SCRs() {
		if scr, ok := s.(*smartContractResult.SmartContractResult); ok && len(scr.ReturnMessage) > 0 {
			return string(scr.ReturnMessage)
		}
	}
	return "?"
}

func (h *history) scrValueTo(rcv []byte) *big.Int {
	sum := bi(0)
	for _, s := range h.e.SCRs() {
		if scr, ok := s.(*smartContractResult.SmartContractResult); ok && bytes.Equal(scr.RcvAddr, rcv) && bytes.Equal(scr.SndAddr, h.sc) && len(scr.Data) == 0 {
			sum.Add(sum, scr.Value)
		}
	}
	return sum
}

func main() {
	_ = logger.SetLogLevel("*:NONE")
	restore := sysc.QuietStdout()
	r := vk.Start("C38")
	r.Rule("one history per case: a metachain test node, one delegation contract created with a random deposit (around the 100 minimum or above the 1000 node price), service fee and optional cap, 3-5 delegators plus the owner; 45-80 operations drawn from delegate / unDelegate (random, all, leaving dust) / withdraw / claimRewards / reDelegateRewards / epoch change with or without rewards through EpochStartSystemSCProcessor.ProcessDelegationRewards / owner operations (addNodes, stakeNodes, unStakeNodes, unBondNodes, reStakeUnStakedNodes, changeServiceFee, modifyTotalDelegationCap, setAutomaticActivation), all as real transactions. Every operation is followed by the full oracle. A step is non-trivial when the operation was accepted or rejected by the contract itself; its shape is (operation, outcome, caller class, has active fund, #unstaked funds bucket, unbondable, nodes staked). The contract's unbond period is set to 1, 2 or 3 epochs. About every ninth step starts a scripted scenario woven into the history: \"staggered unbond\" (one delegator undelegates small amounts in 3-4 consecutive epochs, then withdraws at epochs where only the oldest funds have matured) or \"late joiner\" (rewards are registered for a new epoch, a brand-new address delegates in that same epoch, old and new delegators claim in this and the next epoch). Histories with an even index never re-fund an emptied delegator record (the C36 known stale-checkpoint shape cannot occur there). Every history ends with all delegators claiming.")
	r.Assume("integrationTests.TestProcessorNode wiring (real TxProcessor, scProcessor, system VM, eei, AccountsDB; disabled BLS signature verifier) is the trusted base",
		"all enable epochs of the test node are 0, so every feature flag of the system contracts is on",
		"amount withdrawn is measured as what leaves the validator contract's balance, rewards paid as what leaves the delegation contract's balance; undelegated is the requested amount of accepted unDelegate transactions (upper bound of the real one)",
		"C36 delegation half is evaluated as a counter only: paid + re-delegated + sum of getClaimableRewards <= rewards received",
		"the unbond period (hard-coded to 1 epoch in the test node) is written into the contract's stored DelegationConfig (1-3 epochs); the validator contract keeps its period of 1 and releases whatever the delegation contract considers matured",
		"end of history: for each delegator in turn, paid + re-delegated + getClaimableRewards(delegator) must not exceed rewards received (else paying him makes rewards paid exceed rewards received, or his claim is refused); histories containing the known stale-checkpoint shape (C36 known finding: an emptied record re-funded after rewards) only count it")
	r.MinShapes(40)
	nCases := r.N(300, 3000)

	r.Parallel(nCases, func(c *vk.Case) {
		runHistory(r, c)
	})
	restore()
	r.Finish()
}

func runHistory(r *vk.Run, c *vk.Case) {
	rng := c.Rng
	e := sysc.New()
	tpn := e.Tpn
	owner := tpn.OwnAccount.Address
	e.Mint(owner, bi(1_000_000_000_000))
	h := &history{r: r, c: c, e: e, own: owner, userName: map[string]string{},
		undelegatedReq: bi(0), withdrawn: bi(0), rewardsIn: bi(0), rewardsPaid: bi(0), rewardsReDeleg: bi(0)}

	// contract creation
	var deposit int64
	switch rng.Intn(3) {
	case 0:
		deposit = int64(100 + rng.Intn(300))
	case 1:
		deposit = int64(1000 + rng.Intn(1700))
	default:
		deposit = int64(2000 + rng.Intn(1500))
	}
	fees := []int64{0, 1, 333, 1000, 5000, 10000, 99999, 100000}
	fee := fees[rng.Intn(len(fees))]
	if rng.Chance(1, 3) {
		fee = int64(rng.Intn(100001))
	}
	capV := int64(0)
	if rng.Chance(1, 3) {
		capV = deposit + int64(rng.Intn(1500))
	}
	e.CleanSCRs()
	rc, err := e.Tx(owner, vm.DelegationManagerSCAddress, "createNewDelegationContract@"+hx(bi(capV).Bytes())+"@"+hx(bi(fee).Bytes()), bi(deposit))
	if err != nil || rc != vmcommon.Ok {
		r.Inconclusive(fmt.Sprintf("createNewDelegationContract failed in case %d: %v %v", c.Idx, rc, err))
		return
	}
	for _, s := range e.SCRs() {
		if scr, ok := s.(*smartContractResult.SmartContractResult); ok && bytes.Equal(scr.RcvAddr, owner) {
			tk := strings.Split(string(scr.GetData()), "@")
			if len(tk) > 2 {
				h.sc, _ = hex.DecodeString(tk[2])
			}
		}
	}
	if len(h.sc) == 0 {
		r.Inconclusive("new delegation contract address not found in the smart contract results")
		return
	}
	h.logf("create deposit=%d fee=%d cap=%d", deposit, fee, capV)
	h.users = [][]byte{owner}
	h.userName[string(owner)] = "owner"
	nDeleg := 3 + rng.Intn(3)
	for i := 0; i < nDeleg; i++ {
		u := bytes.Repeat([]byte{byte(0x20 + i)}, 32)
		e.Mint(u, bi(1_000_000_000_000))
		h.users = append(h.users, u)
		h.userName[string(u)] = fmt.Sprintf("d%d", i)
	}
	for i := 0; i < 3; i++ {
		k := rng.Bytes(96)
		h.blsKeys = append(h.blsKeys, k)
	}
	h.avoid = c.Idx%2 == 0
	if !h.setUnBondPeriod([]uint32{1, 2, 2, 3, 3}[rng.Intn(5)]) {
		r.Inconclusive("delegation configuration record not found")
		return
	}
	h.log[0] += fmt.Sprintf(" unbond=%d noRefundMode=%v", h.unbond, h.avoid)
	snap, ok := h.check("create")
	if !ok {
		return
	}
	var plan []planned

	steps := 45 + rng.Intn(36)
	if !r.Quick() {
		steps = 60 + rng.Intn(80)
	}
	// op weights vary per history so that some histories are reward-heavy, some churn-heavy
	rewardBias := rng.Intn(3)
	for step := 0; (step < steps || len(plan) > 0) && !h.stopped; step++ {
		e.Nonce++
		e.SetHeader()
		// scripted scenarios, woven into the random history
		if len(plan) == 0 && step < steps && rng.Chance(1, 9) {
			plan = h.schedule(rng, snap)
		}
		var f *planned
		if len(plan) > 0 {
			f = &planned{}
			*f = plan[0]
			plan = plan[1:]
		}
		// pick the operation first, then a caller that makes it interesting most of the time
		op := rng.Intn(22 + rewardBias)
		if f != nil {
			op = f.op
		}
		pick := func(pred func(u []byte) bool, num, den int) []byte {
			if rng.Chance(num, den) {
				var cand [][]byte
				for _, x := range h.users {
					if pred(x) {
						cand = append(cand, x)
					}
				}
				if len(cand) > 0 {
					return cand[rng.Intn(len(cand))]
				}
			}
			return h.users[rng.Intn(len(h.users))]
		}
		hasRecord := func(x []byte) bool { _, ok := snap.delegators[string(x)]; return ok }
		hasActive := func(x []byte) bool { return snap.active[string(x)] != nil && snap.active[string(x)].Sign() > 0 }
		hasUnstaked := func(x []byte) bool { return snap.unstaked[string(x)] != nil && snap.unstaked[string(x)].Sign() > 0 }
		var u []byte
		switch {
		case op <= 5:
			u = h.users[rng.Intn(len(h.users))]
		case op <= 10:
			u = pick(hasActive, 11, 12)
		case op <= 13:
			u = pick(hasUnstaked, 4, 5)
		default:
			u = pick(hasRecord, 5, 6)
		}
		if f != nil && f.user != nil {
			u = f.user
		}
		if h.avoid && (op <= 5 || op == 16) && hasRecord(u) && !hasActive(u) {
			// would re-fund an emptied record: the known stale-checkpoint shape; not in this history
			r.Count("refund_skipped_in_no_refund_mode", 1)
			r.Trivial()
			continue
		}
		un := h.userName[string(u)]
		e.CleanSCRs()
		balUser := e.Balance(u)
		balSC := e.Balance(h.sc)
		balVal := e.Balance(vm.ValidatorSCAddress)
		var name, dataField string
		value := bi(0)
		isTx := true
		switch {
		case op <= 5:
			name = "delegate"
			switch rng.Intn(8) {
			case 0:
				value = bi(int64(90 + rng.Intn(20))) // around the minimum of 100
			case 1:
				value = bi(int64(1 + rng.Intn(99)))
			case 2, 3:
				value = bi(int64(100 + rng.Intn(20)))
			case 4, 5:
				value = bi(int64(100 + rng.Intn(300)))
			default:
				value = bi(int64(500 + rng.Intn(1500)))
			}
			if f != nil {
				value = bi(f.amt)
			}
			dataField = "delegate"
		case op <= 10:
			name = "unDelegate"
			act := big.NewInt(0)
			if snap.active[string(u)] != nil {
				act.Set(snap.active[string(u)])
			}
			var amt *big.Int
			sel := rng.Intn(12)
			if bytes.Equal(u, owner) && sel <= 3 && rng.Chance(2, 3) {
				sel = 10 // the owner emptying his stake deactivates the contract; do it less often
			}
			switch sel {
			case 0, 1, 2, 3:
				amt = big.NewInt(0).Set(act) // everything
			case 4:
				amt = big.NewInt(0).Sub(act, bi(int64(1+rng.Intn(99)))) // would leave dust
			case 5, 6, 7:
				amt = big.NewInt(0).Sub(act, bi(int64(100+rng.Intn(20)))) // leaves about the minimum
			case 8:
				amt = big.NewInt(0).Add(act, bi(1)) // too much
			case 9:
				amt = bi(int64(rng.Intn(3))) // tiny, includes the invalid 0
			default:
				amt = bi(int64(1 + rng.Intn(300)))
				if rng.Chance(2, 3) {
					amt = bi(int64(100 + rng.Intn(200))) // at least the validator contract's minimum unstake value
				}
			}
			if amt.Sign() < 0 {
				amt = bi(int64(rng.Intn(3)))
			}
			if h.avoid && bytes.Equal(u, owner) && amt.Cmp(act) == 0 {
				amt = big.NewInt(0).Sub(act, bi(100)) // the owner never empties his stake in this mode
				if amt.Sign() <= 0 {
					amt = bi(1)
				}
			}
			if f != nil {
				amt = bi(f.amt)
			}
			value = bi(0)
			dataField = "unDelegate@" + hx(amt.Bytes())
			name = "unDelegate"
			h.logf("%s unDelegate %s (active %s) epoch %d", un, amt, act, e.Epoch)
			rc, err = e.Tx(u, h.sc, dataField, value)
			if err == nil && rc == vmcommon.Ok {
				h.undelegatedReq.Add(h.undelegatedReq, amt)
			}
			isTx = false
		case op <= 13:
			name = "withdraw"
			dataField = "withdraw"
		case op <= 15:
			name = "claimRewards"
			dataField = "claimRewards"
		case op == 16:
			name = "reDelegateRewards"
			dataField = "reDelegateRewards"
		case op <= 18:
			// owner operations
			u, un = owner, "owner"
			balUser = e.Balance(u)
			k := h.blsKeys[rng.Intn(len(h.blsKeys))]
			sel := rng.Intn(9)
			if sel <= 6 && rng.Chance(3, 4) {
				// choose the node operation that fits the key's current list
				inList := func(l []*ssc.NodesData) bool {
					for _, n := range l {
						if bytes.Equal(n.BLSKey, k) {
							return true
						}
					}
					return false
				}
				switch {
				case inList(snap.status.NotStakedKeys):
					sel = 2
				case inList(snap.status.StakedKeys):
					sel = 4
				case inList(snap.status.UnStakedKeys):
					sel = 5 + rng.Intn(2)
				default:
					sel = 0
				}
			}
			switch sel {
			case 0, 1:
				name = "addNodes"
				dataField = "addNodes@" + hx(k) + "@" + hx([]byte("sig"))
			case 2, 3:
				name = "stakeNodes"
				dataField = "stakeNodes@" + hx(k)
			case 4:
				name = "unStakeNodes"
				dataField = "unStakeNodes@" + hx(k)
			case 5:
				name = "unBondNodes"
				dataField = "unBondNodes@" + hx(k)
			case 6:
				name = "reStakeUnStakedNodes"
				dataField = "reStakeUnStakedNodes@" + hx(k)
			case 7:
				name = "changeServiceFee"
				dataField = "changeServiceFee@" + hx(bi(int64(rng.Intn(100001))).Bytes())
				if rng.Chance(1, 4) {
					dataField = "changeServiceFee@" + hx(bi(fees[rng.Intn(len(fees))]).Bytes())
				}
			default:
				if rng.Bool() {
					name = "modifyTotalDelegationCap"
					nc := bi(0)
					if rng.Chance(2, 3) {
						nc = big.NewInt(0).Add(snap.gf.TotalActive, bi(int64(rng.Intn(800))-200))
						if nc.Sign() < 0 {
							nc = bi(0)
						}
					}
					dataField = "modifyTotalDelegationCap@" + hx(nc.Bytes())
				} else {
					name = "setAutomaticActivation"
					dataField = "setAutomaticActivation@" + hx([]byte([]string{"true", "false"}[rng.Intn(2)]))
				}
			}
		default:
			name = "epoch"
			isTx = false
			inc := uint32(1 + rng.Intn(2)*rng.Intn(2))
			withRewards := rng.Intn(4) != 0
			if f != nil {
				inc = 1
				if f.amt >= 0 {
					withRewards = f.amt > 0
				}
			}
			e.Epoch += inc
			e.SetHeader()
			rc, err = vmcommon.Ok, nil
			if withRewards {
				name = "epoch+rewards"
				var val *big.Int
				switch rng.Intn(4) {
				case 0:
					val = bi(int64(rng.Intn(10)))
				case 1:
					val = bi(int64(rng.Intn(1000)))
				default:
					val = bi(int64(rng.Intn(100000)))
				}
				if f != nil && f.amt > 0 {
					val = bi(f.amt)
				}
				rt := &rewardTx.RewardTx{Value: val, RcvAddr: h.sc, Epoch: e.Epoch}
				b, _ := integrationTests.TestMarshalizer.Marshal(rt)
				hash := integrationTests.TestHasher.Compute(string(b))
				cache, _ := dataPool.NewCurrentBlockPool()
				cache.AddTx(hash, rt)
				errR := tpn.EpochStartSystemSCProcessor.ProcessDelegationRewards(block.MiniBlockSlice{&block.MiniBlock{TxHashes: [][]byte{hash}, ReceiverShardID: core.MetachainShardId, Type: block.RewardsBlock}}, cache)
				if errR == nil {
					h.rewardsIn.Add(h.rewardsIn, val)
				} else {
					err = errR
				}
				h.logf("epoch -> %d, rewards %s (err %v)", e.Epoch, val, errR)
			} else {
				h.logf("epoch -> %d, no rewards", e.Epoch)
			}
		}
		if name == "withdraw" {
			mat, unm := 0, 0
			for _, fe := range snap.unstEpochs[string(u)] {
				if e.Epoch-fe >= h.unbond {
					mat++
				} else {
					unm++
				}
			}
			if mat > 2 {
				mat = 2
			}
			if unm > 2 {
				unm = 2
			}
			r.Count(fmt.Sprintf("withdraw_with_funds:matured=%d,unmatured=%d", mat, unm), 1)
		}
		if isTx {
			h.logf("%s %s value=%s epoch %d", un, dataFieldShort(dataField), value, e.Epoch)
			rc, err = e.Tx(u, h.sc, dataField, value)
		}
		accepted := err == nil && rc == vmcommon.Ok
		outcome := "ok"
		if !accepted {
			outcome = "rejected"
			if err != nil {
				outcome = "txerror"
			}
		}
		h.log[len(h.log)-1] += " -> " + outcome
		if !accepted && debugReasons {
			r.Count("dbg:"+name+": "+h.rejectReason(), 1)
		}
		r.Count("op:"+name+"/"+outcome, 1)

		// money flows of this operation, measured on balances
		dSC := big.NewInt(0).Sub(e.Balance(h.sc), balSC)
		dVal := big.NewInt(0).Sub(e.Balance(vm.ValidatorSCAddress), balVal)
		dUser := big.NewInt(0).Sub(e.Balance(u), balUser)
		maxFee := sysc.MaxFee(dataField)
		if accepted {
			switch name {
			case "withdraw":
				out := big.NewInt(0).Neg(dVal)
				h.withdrawn.Add(h.withdrawn, out)
				r.Eval(1)
				// the user got it (minus at most the fee) and nothing stayed in the contract
				lo := big.NewInt(0).Sub(out, maxFee)
				if out.Sign() < 0 || dSC.Sign() != 0 || dUser.Cmp(out) > 0 || dUser.Cmp(lo) < 0 || h.scrValueTo(u).Cmp(out) != 0 {
					h.viol("withdraw-flow", fmt.Sprintf("withdraw by %s: validator contract released %s, delegation contract balance changed by %s, user balance by %s, transfer SCR %s", un, out, dSC, dUser, h.scrValueTo(u)), nil)
				}
				if out.Sign() > 0 {
					r.Count("withdraw_nonzero", 1)
				}
			case "claimRewards":
				out := big.NewInt(0).Neg(dSC)
				h.rewardsPaid.Add(h.rewardsPaid, out)
				r.Eval(1)
				lo := big.NewInt(0).Sub(out, maxFee)
				if out.Sign() < 0 || dVal.Sign() != 0 || dUser.Cmp(out) > 0 || dUser.Cmp(lo) < 0 {
					h.viol("claim-flow", fmt.Sprintf("claimRewards by %s: contract balance changed by %s, validator contract by %s, user by %s", un, dSC, dVal, dUser), nil)
				}
				if out.Sign() > 0 {
					r.Count("claim_nonzero", 1)
				}
			case "reDelegateRewards":
				out := big.NewInt(0).Neg(dSC)
				h.rewardsReDeleg.Add(h.rewardsReDeleg, out)
				r.Eval(1)
				if out.Sign() <= 0 || dVal.Cmp(out) != 0 {
					h.viol("redelegate-flow", fmt.Sprintf("reDelegateRewards by %s: contract balance changed by %s, validator contract by %s", un, dSC, dVal), nil)
				}
			case "delegate":
				r.Eval(1)
				if dVal.Cmp(value) != 0 || dSC.Sign() != 0 {
					h.viol("delegate-flow", fmt.Sprintf("delegate %s by %s: validator contract balance changed by %s, delegation contract by %s", value, un, dVal, dSC), nil)
				}
			case "unDelegate":
				if dVal.Sign() != 0 || dSC.Sign() != 0 {
					h.viol("undelegate-flow", fmt.Sprintf("unDelegate by %s moved money: validator %s, contract %s", un, dVal, dSC), nil)
				}
			}
		} else if name != "epoch" && name != "epoch+rewards" {
			// a rejected operation moves no money between the contracts
			if dVal.Sign() != 0 || dSC.Sign() != 0 {
				h.viol("rejected-op-moved-money", fmt.Sprintf("rejected %s by %s: validator contract %s, delegation contract %s", name, un, dVal, dSC), nil)
			}
		}
		if h.stopped {
			break
		}
		// the path on which the pinned contract keeps a stale RewardsCheckpoint: an existing delegator without
		// active fund gets one again after rewards arrived in between
		if _, had := snap.delegators[string(u)]; accepted && (name == "delegate" || name == "reDelegateRewards") && had &&
			(snap.active[string(u)] == nil || snap.active[string(u)].Sign() == 0) && h.rewardsIn.Sign() > 0 {
			h.reFunded = true
			r.Count("refund_of_emptied_delegator_after_rewards", 1)
		}
		prev := snap
		snap, ok = h.check(name)
		if !ok {
			return
		}
		// shape of the transition (pre-state class of the caller)
		if outcome == "txerror" {
			r.Trivial()
		} else {
			_, had := prev.delegators[string(u)]
			nUn := 0
			if had {
				nUn = len(prev.delegators[string(u)].UnStakedFunds)
				if nUn > 2 {
					nUn = 2
				}
			}
			hasAct := prev.active[string(u)] != nil && prev.active[string(u)].Sign() > 0
			cls := "deleg"
			if bytes.Equal(u, owner) {
				cls = "owner"
			}
			r.Shape(fmt.Sprintf("%s/%s %s rec=%v act=%v unst=%d nodes=%d", name, outcome, cls, had, hasAct, nUn, len(prev.status.StakedKeys)))

		}
		// a rejected operation changes nothing in the contract's books
		if !accepted && (name != "epoch" && name != "epoch+rewards") {
			r.Eval(1)
			if prev.gf.TotalActive.Cmp(snap.gf.TotalActive) != 0 || prev.gf.TotalUnStaked.Cmp(snap.gf.TotalUnStaked) != 0 || prev.nFunds != snap.nFunds {
				h.viol("rejected-op-changed-books", fmt.Sprintf("rejected %s by %s changed totals: active %s->%s unstaked %s->%s funds %d->%d", name, un, prev.gf.TotalActive, snap.gf.TotalActive, prev.gf.TotalUnStaked, snap.gf.TotalUnStaked, prev.nFunds, snap.nFunds), nil)
			}
		}
		r.Max("max_fund_records", int64(snap.nFunds))
		r.Max("max_unstaked_funds_per_delegator", int64(maxUnstaked(snap)))
	}
	if !h.stopped {
		h.everybodyClaims(snap)
	}
	if h.stopped {
		return
	}
	r.Count("histories", 1)
	if h.avoid {
		r.Count("histories_in_no_refund_mode", 1)
	}
	r.Count("operations", len(h.log)-1)
	if r.NeedSample() && len(h.log) > 12 {
		r.Sample(map[string]interface{}{"case": c.Idx, "first_ops": h.log[:12], "final_total_active": snap.gf.TotalActive.String(), "final_total_unstaked": snap.gf.TotalUnStaked.String(),
			"rewards_received": h.rewardsIn.String(), "rewards_claimed": h.rewardsPaid.String(), "rewards_redelegated": h.rewardsReDeleg.String(), "withdrawn": h.withdrawn.String(), "undelegated": h.undelegatedReq.String()})
	}
}

func maxUnstaked(s *snapshot) int {
	m := 0
	for _, d := range s.delegators {
		if len(d.UnStakedFunds) > m {
			m = len(d.UnStakedFunds)
		}
	}
	return m
}

func dataFieldShort(d string) string {
	if len(d) > 60 {
		return d[:40] + "..." + d[len(d)-8:]
	}
	return d
}

// schedule returns a scripted scenario:
//   - "staggered unbond": one delegator undelegates small amounts in 3-4 consecutive epochs (one fund per
//     epoch), then withdraws at epochs where only the oldest funds have matured;
//   - "late joiner": rewards are registered for a new epoch, then a brand-new address delegates in that same
//     epoch, then old and new delegators claim in this and the next epoch.
func (h *history) schedule(rng *vk.Rand, snap *snapshot) []planned {
	var plan []planned
	if rng.Bool() {
		h.r.Count("scenario:staggered-unbond", 1)
		var cand [][]byte
		for _, u := range h.users[1:] {
			if a := snap.active[string(u)]; a != nil && a.Cmp(bi(900)) >= 0 {
				cand = append(cand, u)
			}
		}
		var d []byte
		if len(cand) > 0 && rng.Chance(3, 4) {
			d = cand[rng.Intn(len(cand))]
		} else {
			d = h.users[1+rng.Intn(len(h.users)-1)]
			if _, has := snap.delegators[string(d)]; has && (snap.active[string(d)] == nil || snap.active[string(d)].Sign() == 0) {
				d = h.freshUser() // never re-fund an emptied record from a script
			}
			plan = append(plan, planned{op: opDelegate, user: d, amt: int64(1000 + rng.Intn(500))})
		}
		k := 3 + rng.Intn(2)
		for i := 0; i < k; i++ {
			if i > 0 {
				plan = append(plan, planned{op: opEpoch, amt: -1})
			}
			plan = append(plan, planned{op: opUnDelegate, user: d, amt: int64(100 + rng.Intn(60))}) // the validator contract refuses to unstake less than the minimum delegation (100)
		}
		// the oldest fund matures unbond epochs after its creation; k-1 epochs have passed already
		for i := k - 1; i < int(h.unbond); i++ {
			plan = append(plan, planned{op: opEpoch, amt: -1})
		}
		plan = append(plan, planned{op: opWithdraw, user: d})
		plan = append(plan, planned{op: opEpoch, amt: -1}, planned{op: opWithdraw, user: d})
		if rng.Bool() {
			plan = append(plan, planned{op: opUnDelegate, user: d, amt: int64(100 + rng.Intn(30))})
		}
		plan = append(plan, planned{op: opEpoch, amt: -1}, planned{op: opEpoch, amt: -1}, planned{op: opWithdraw, user: d})
		return plan
	}
	if h.nFresh >= 8 {
		return nil
	}
	h.r.Count("scenario:late-joiner", 1)
	old := func() []byte {
		var cand [][]byte
		for _, u := range h.users {
			if a := snap.active[string(u)]; a != nil && a.Sign() > 0 {
				cand = append(cand, u)
			}
		}
		if len(cand) == 0 {
			return h.users[0]
		}
		return cand[rng.Intn(len(cand))]
	}
	nu := h.freshUser()
	plan = append(plan,
		planned{op: opEpoch, amt: int64(1000 + rng.Intn(100000))},
		planned{op: opDelegate, user: nu, amt: int64(100 + rng.Intn(2000))},
		planned{op: opClaim, user: old()},
		planned{op: opClaim, user: nu},
		planned{op: opEpoch, amt: int64(1000 + rng.Intn(100000))},
		planned{op: opClaim, user: nu},
		planned{op: opClaim, user: old()},
	)
	return plan
}

// everybodyClaims ends a history: every delegator claims. Rewards paid are measured on the contract's
// balance; what a delegator is owed (getClaimableRewards) on top of what was paid must be covered by the
// rewards received, otherwise paying everybody makes rewards paid exceed rewards received (or the last
// claims are refused). Histories that contain the known stale-checkpoint shape only count it.
func (h *history) everybodyClaims(snap *snapshot) {
	e := h.e
	for _, u := range append([][]byte(nil), h.users...) {
		if h.stopped {
			return
		}
		if _, has := snap.delegators[string(u)]; !has {
			continue
		}
		un := h.userName[string(u)]
		e.Nonce++
		e.SetHeader()
		owedRaw := e.Query(h.sc, "getClaimableRewards", u)
		if len(owedRaw) != 1 {
			continue
		}
		owed := big.NewInt(0).SetBytes(owedRaw[0])
		total := big.NewInt(0).Add(h.rewardsPaid, h.rewardsReDeleg)
		total.Add(total, owed)
		h.r.Eval(1)
		h.r.Count("final_claim_checks", 1)
		if total.Cmp(h.rewardsIn) > 0 {
			if h.reFunded {
				h.r.Count("final_claim_owed_gt_received_after_refund_of_emptied_delegator(counter-only, C36 known finding)", 1)
			} else {
				h.logf("%s final claimRewards epoch %d: owed %s", un, e.Epoch, owed)
				h.viol("rewards-owed-gt-received", fmt.Sprintf("everybody claims: paid %s + re-delegated %s + owed to %s %s > rewards received %s", h.rewardsPaid, h.rewardsReDeleg, un, owed, h.rewardsIn), nil)
				return
			}
		}
		balSC := e.Balance(h.sc)
		e.CleanSCRs()
		rc, err := e.Tx(u, h.sc, "claimRewards", bi(0))
		ok := err == nil && rc == vmcommon.Ok
		h.logf("%s final claimRewards epoch %d (owed %s) -> %v", un, e.Epoch, owed, ok)
		h.r.Count(fmt.Sprintf("op:final-claim/%v", ok), 1)
		if ok {
			out := big.NewInt(0).Sub(balSC, e.Balance(h.sc))
			h.rewardsPaid.Add(h.rewardsPaid, out)
			if out.Cmp(owed) != 0 {
				h.viol("claim-flow", fmt.Sprintf("final claimRewards by %s paid %s, getClaimableRewards announced %s", un, out, owed), nil)
				return
			}
		}
		var good bool
		snap, good = h.check("final-claim")
		if !good {
			return
		}
	}
}
