// C41 — ESDT token identifiers are unique and well-formed (TICKER-xxxxxx, six lowercase hex digits).
// Monitor shape: runtime monitor over histories of real issue / issueSemiFungible / issueNonFungible
// transactions executed by the real ESDT system contract on a real vmContext through the real system VM.
// The blockchain hook stub supplies the random seed, a hasher placed at the constructor boundary either
// hashes for real (blake2b) or steers the 3-byte random part to chosen start values.
package main

import (
	"bytes"
	"encoding/hex"
	"fmt"
	"math/big"
	"regexp"
	"strings"

	logger "github.com/ElrondNetwork/elrond-go-logger"
	"github.com/ElrondNetwork/elrond-go/config"
	"github.com/ElrondNetwork/elrond-go/core"
	"github.com/ElrondNetwork/elrond-go/data/state"
	"github.com/ElrondNetwork/elrond-go/hashing"
	"github.com/ElrondNetwork/elrond-go/hashing/blake2b"
	"github.com/ElrondNetwork/elrond-go/marshal"
	"github.com/ElrondNetwork/elrond-go/process"
	"github.com/ElrondNetwork/elrond-go/process/smartContract/hooks"
	"github.com/ElrondNetwork/elrond-go/testscommon"
	"github.com/ElrondNetwork/elrond-go/vm"
	vmFactory "github.com/ElrondNetwork/elrond-go/vm/factory"
	"github.com/ElrondNetwork/elrond-go/vm/mock"
	vmProcess "github.com/ElrondNetwork/elrond-go/vm/process"
	"github.com/ElrondNetwork/elrond-go/vm/systemSmartContracts"
	vmcommon "github.com/ElrondNetwork/elrond-vm-common"
	"github.com/ElrondNetwork/elrond-vm-common/parsers"
	"verif/internal/vk"
)

const retryLimit = 50 // numOfRetriesForIdentifier in esdt.go (used only to judge "retries exhausted" errors)
const exhaustedMsg = "token identifier could not be created"

// steerHasher: real blake2b unless a 3-byte prefix is forced
type steerHasher struct {
	real   hashing.Hasher
	forced []byte
	calls  int
}

func (h *steerHasher) Compute(s string) []byte {
	h.calls++
	out := h.real.Compute(s)
	if h.forced != nil {
		out = append(append([]byte{}, h.forced...), out[len(h.forced):]...)
	}
	return out
}
func (h *steerHasher) Size() int            { return h.real.Size() }
func (h *steerHasher) IsInterfaceNil() bool { return h == nil }

type akey struct{ addr, key string }

type world struct {
	store  map[akey][]byte
	seed   []byte
	nonce  uint64
	hasher *steerHasher
	sysVM  vmcommon.VMExecutionHandler
}

func newWorld() (*world, error) {
	w := &world{store: map[akey][]byte{}, nonce: 10, hasher: &steerHasher{real: blake2b.NewBlake2b()}}
	hook := &mock.BlockChainHookStub{
		GetStorageDataCalled: func(a []byte, k []byte) ([]byte, error) {
			return w.store[akey{string(a), string(k)}], nil
		},
		GetUserAccountCalled: func(_ []byte) (vmcommon.UserAccountHandler, error) {
			return nil, state.ErrAccNotFound
		},
		CurrentNonceCalled:      func() uint64 { return w.nonce },
		CurrentRoundCalled:      func() uint64 { return w.nonce },
		CurrentEpochCalled:      func() uint32 { return 1 },
		NumberOfShardsCalled:    func() uint32 { return 1 },
		CurrentRandomSeedCalled: func() []byte { return append([]byte{}, w.seed...) },
	}
	eei, err := systemSmartContracts.NewVMContext(hook, hooks.NewVMCryptoHook(), parsers.NewCallArgsParser(), &testscommon.AccountsStub{}, &mock.RaterMock{})
	if err != nil {
		return nil, err
	}
	esdt, err := systemSmartContracts.NewESDTSmartContract(systemSmartContracts.ArgsNewESDTSmartContract{
		Eei:                    eei,
		GasCost:                vm.GasCost{MetaChainSystemSCsCost: vm.MetaChainSystemSCsCost{ESDTIssue: 10}},
		ESDTSCConfig:           config.ESDTSystemSCConfig{BaseIssuingCost: "1000", OwnerAddress: "esdt-owner"},
		ESDTSCAddress:          vm.ESDTSCAddress,
		Marshalizer:            &marshal.GogoProtoMarshalizer{},
		Hasher:                 w.hasher,
		EpochNotifier:          &mock.EpochNotifierStub{},
		EndOfEpochSCAddress:    vm.EndOfEpochAddress,
		AddressPubKeyConverter: mock.NewPubkeyConverterMock(32),
		EpochConfig:            config.EpochConfig{EnableEpochs: config.EnableEpochs{ESDTEnableEpoch: 0}},
	})
	if err != nil {
		return nil, err
	}
	cont := vmFactory.NewSystemSCContainer()
	if err = cont.Add(vm.ESDTSCAddress, esdt); err != nil {
		return nil, err
	}
	if err = eei.SetSystemSCContainer(cont); err != nil {
		return nil, err
	}
	sysVM, err := vmProcess.NewSystemVM(vmProcess.ArgsNewSystemVM{
		SystemEI: eei, SystemContracts: cont, VmType: []byte{0, 1},
		GasSchedule: mock.NewGasScheduleNotifierMock(map[string]map[string]uint64{core.ElrondAPICost: {core.AsyncCallStepField: 1000, core.AsyncCallbackGasLockField: 3000}}),
	})
	if err != nil {
		return nil, err
	}
	w.sysVM = sysVM
	// deploy: runs the contract's init (saves the ESDT config)
	out, err := sysVM.RunSmartContractCreate(&vmcommon.ContractCreateInput{
		VMInput:      vmcommon.VMInput{CallerAddr: vm.ESDTSCAddress, CallValue: big.NewInt(0)},
		ContractCode: []byte("esdt"),
	})
	if err != nil || out.ReturnCode != vmcommon.Ok {
		return nil, fmt.Errorf("esdt init failed: %v", err)
	}
	_, _ = w.apply(out)
	return w, nil
}

// apply commits the storage updates of a successful transaction the way the node does
// (scProcessor.processSCOutputAccounts, process/smartContract/process.go): every update goes through the real
// process.IsAllowedToSaveUnderKey and is skipped when that says no. Returns the keys of the ESDT contract that became
// non-empty and were empty before, and the keys whose update was skipped.
func (w *world) apply(out *vmcommon.VMOutput) (newKeys []string, dropped []string) {
	for addr, oa := range out.OutputAccounts {
		for key, su := range oa.StorageUpdates {
			if !process.IsAllowedToSaveUnderKey(su.Offset) {
				dropped = append(dropped, string(su.Offset))
				continue
			}
			k := akey{addr, key}
			old := w.store[k]
			if len(su.Data) == 0 {
				delete(w.store, k)
				continue
			}
			if len(old) == 0 && addr == string(vm.ESDTSCAddress) {
				newKeys = append(newKeys, key)
			}
			w.store[k] = append([]byte{}, su.Data...)
		}
	}
	return newKeys, dropped
}

var wellFormed = regexp.MustCompile(`^[A-Z0-9]{3,10}-[0-9a-f]{6}$`)
var sevenHex = regexp.MustCompile(`^[A-Z0-9]{3,10}-[0-9a-f]{7}$`)

type startClass struct {
	name   string
	forced []byte
}

var steered = []startClass{
	{"000000", []byte{0, 0, 0}},
	{"fffffe", []byte{0xff, 0xff, 0xfe}},
	{"ffffff", []byte{0xff, 0xff, 0xff}},
	{"ffffd0", []byte{0xff, 0xff, 0xd0}}, // the 50-candidate window crosses ffffff
	{"00ffff", []byte{0x00, 0xff, 0xff}},
	{"0fffff", []byte{0x0f, 0xff, 0xff}},
}

var kinds = []string{"issue", "issueSemiFungible", "issueNonFungible"}

func randTicker(rng *vk.Rand) string {
	const cs = "ABCDEFGHIJKLMNOPQRSTUVWXYZ0123456789"
	n := rng.Range(3, 10)
	if rng.Chance(1, 3) {
		n = 3
	}
	b := make([]byte, n)
	for i := range b {
		b[i] = cs[rng.Intn(len(cs))]
	}
	return string(b)
}

func randAlnum(rng *vk.Rand, n int) string {
	const cs = "ABCDEFGHIJKLMNOPQRSTUVWXYZ0123456789"
	b := make([]byte, n)
	for i := range b {
		b[i] = cs[rng.Intn(len(cs))]
	}
	return string(b)
}

// protectedTicker: a valid ticker ([A-Z0-9]{3,10}) that starts with core.ElrondProtectedKeyPrefix, so that the
// identifier TICKER-xxxxxx (= the contract's storage key of the token record) starts with it too
func protectedTicker(rng *vk.Rand) string {
	return core.ElrondProtectedKeyPrefix + randAlnum(rng, rng.Range(0, 10-len(core.ElrondProtectedKeyPrefix)))
}

// controlTicker: valid tickers that resemble the protected prefix without starting with it: the word somewhere
// else in the ticker, or a prefix that differs in one place / is cut short
func controlTicker(rng *vk.Rand) string {
	pfx := core.ElrondProtectedKeyPrefix
	switch rng.Intn(3) {
	case 0: // contained, not leading
		pre := randAlnum(rng, rng.Range(1, 10-len(pfx)))
		return pre + pfx + randAlnum(rng, rng.Range(0, 10-len(pfx)-len(pre)))
	case 1: // one character of the prefix replaced
		b := []byte(pfx)
		i := rng.Intn(len(b))
		for {
			ch := randAlnum(rng, 1)[0]
			if ch != b[i] {
				b[i] = ch
				break
			}
		}
		return string(b) + randAlnum(rng, rng.Range(0, 10-len(pfx)))
	default: // cut short
		return pfx[:rng.Range(3, len(pfx)-1)]
	}
}

// badTicker returns a ticker outside the protocol's ticker alphabet/length ([A-Z0-9]{3,10}) and its class
func badTicker(rng *vk.Rand) (string, string) {
	good := randTicker(rng)
	switch rng.Intn(6) {
	case 0:
		return strings.ToLower(good[:1]) + good[1:] + "a", "lowercase"
	case 1:
		b := []byte(strings.ToLower(good))
		b[rng.Intn(len(b))] = byte('a' + rng.Intn(26))
		return string(b), "lowercase"
	case 2:
		b := []byte(good)
		b[rng.Intn(len(b))] = byte('a' + rng.Intn(26))
		return string(b), "lowercase"
	case 3:
		return good[:2], "too-short"
	case 4:
		return (good + "ABCDEFGHIJK")[:11+rng.Intn(3)], "too-long"
	default:
		b := []byte(good)
		b[rng.Intn(len(b))] = "-_ .@#/"[rng.Intn(7)]
		return string(b), "charset"
	}
}

func userAddr(i int) []byte {
	b := make([]byte, 32)
	copy(b, fmt.Sprintf("\x01esdt-user-%d", i))
	b[31] = byte(i + 1)
	return b
}

func main() {
	_ = logger.SetLogLevel("*:NONE")
	r := vk.Start("C41")
	r.Rule("per case one ESDT contract and a history of 3-6 'bursts': a burst repeats the same (kind in issue/issueSemiFungible/issueNonFungible mixed, caller, random seed, ticker) 1-56 times so that the first candidate identifier already exists and the retry path is walked up to and beyond its limit; the random part comes from real blake2b or is steered to 000000/fffffe/ffffff/ffffd0/00ffff/0fffff; tickers are random [A-Z0-9]{3,10}, some share a prefix; a quarter of the cases also has a ticker that starts with the protected storage-key prefix (core.ElrondProtectedKeyPrefix, 0-4 more characters) and a quarter a control ticker that only contains that word elsewhere, differs from it in one character or is a cut-short form of it; half of the bursts are preceded by one issue with a ticker outside that form (lower/mixed case, 2 or 11-13 characters, punctuation) that must be refused. An issue is non-trivial when its first candidate existed already or the start value was steered; distinct = (kind, start class, retry-depth bucket, outcome).")
	r.Assume(
		"an issue that fails with 'token identifier could not be created' is accepted only if at least 50 (the retry limit) identifiers with this ticker exist; otherwise it is reported as spurious-exhaustion",
		"the identifier is observed three ways that must agree: returned value (ESDTTransfer data for issue, return data for SFT/NFT), the new key in the ESDT contract's storage updates, and the stored token record (ticker, owner)",
		"the retry order itself (which free identifier is chosen) is not judged",
		"the harness world keeps the contract's storage the way the node does: each storage update of a successful call is passed through the real process.IsAllowedToSaveUnderKey and skipped when it returns false (scProcessor.processSCOutputAccounts); an issue of a ticker with the protected prefix that the contract REFUSES is accepted (nothing was issued)",
	)
	r.MinShapes(25)
	nCases := r.N(1500, 120000)

	r.Parallel(nCases, func(c *vk.Case) {
		rng := c.Rng
		w, err := newWorld()
		if err != nil {
			r.Violation(c.Idx, "constructor", err.Error(), nil)
			return
		}
		issued := map[string]int{} // identifier -> op index
		perTicker := map[string]int{}
		tickers := []string{randTicker(rng), randTicker(rng)}
		if len(tickers[0]) < 10 {
			tickers = append(tickers, tickers[0]+"1") // shares a prefix with the first
		}
		if rng.Chance(1, 4) {
			tickers = append(tickers, protectedTicker(rng))
		}
		if rng.Chance(1, 4) {
			tickers = append(tickers, controlTicker(rng))
		}
		seeds := [][]byte{rng.Bytes(32), rng.Bytes(32), rng.Bytes(32)}
		var trace []string
		opIdx := 0
		nBursts := rng.Range(3, 6)
		for b := 0; b < nBursts; b++ {
			ticker := tickers[rng.Intn(len(tickers))]
			caller := userAddr(rng.Intn(3))
			seed := seeds[rng.Intn(len(seeds))]
			sc := startClass{name: "hash"}
			if rng.Chance(3, 5) {
				sc = steered[rng.Intn(len(steered))]
			}
			reps := rng.Range(1, 6)
			switch x := rng.Intn(10); {
			case x < 2:
				reps = rng.Range(49, 56) // up to and beyond the retry limit
			case x < 4:
				reps = rng.Range(7, 30)
			}
			if rng.Chance(1, 2) {
				// an issue with a ticker outside [A-Z0-9]{3,10} must not create a token: whatever identifier it
				// would get is not of the form TICKER-xxxxxx
				bt, bclass := badTicker(rng)
				kind := kinds[rng.Intn(len(kinds))]
				w.seed = seed
				w.hasher.forced = sc.forced
				w.nonce++
				bargs := [][]byte{[]byte(fmt.Sprintf("Token%d", opIdx)), []byte(bt)}
				if kind == "issue" {
					bargs = append(bargs, big.NewInt(1000).Bytes(), []byte{2})
				}
				bout, berr := w.sysVM.RunSmartContractCall(&vmcommon.ContractCallInput{
					VMInput:       vmcommon.VMInput{CallerAddr: append([]byte{}, caller...), CallValue: big.NewInt(1000), GasProvided: 100000, Arguments: bargs},
					RecipientAddr: vm.ESDTSCAddress,
					Function:      kind,
				})
				opIdx++
				r.Eval(1)
				r.Count("tx_invalid_ticker_"+bclass, 1)
				if berr != nil || bout == nil {
					r.Inconclusive(fmt.Sprintf("system VM error: %v", berr))
					return
				}
				bline := fmt.Sprintf("#%d %s invalid ticker=%q (%s) -> %v %q", opIdx, kind, bt, bclass, bout.ReturnCode, bout.ReturnMessage)
				trace = append(trace, bline)
				if bout.ReturnCode == vmcommon.Ok {
					r.Violation(c.Idx, "invalid-ticker-issued class="+bclass, fmt.Sprintf("%s with ticker %q (%s) returned Ok: a token was issued whose identifier cannot have the form TICKER-xxxxxx", kind, bt, bclass), map[string]interface{}{"last_ops": append([]string{}, trace...), "ticker": bt})
				}
			}
			for i := 0; i < reps; i++ {
				kind := kinds[rng.Intn(len(kinds))]
				w.seed = seed
				w.hasher.forced = sc.forced
				w.nonce++
				// what the first candidate is (the harness controls both inputs of the hash)
				base := w.hasher.Compute(string(append(append([]byte{}, caller...), seed...)))[:3]
				firstCand := fmt.Sprintf("%s-%s", ticker, hex.EncodeToString(base))
				_, firstTaken := issued[firstCand]
				// the node does not save under keys for which process.IsAllowedToSaveUnderKey says no: identifiers of
				// this ticker (= storage keys of the token records) are such keys
				protectedTk := !process.IsAllowedToSaveUnderKey([]byte(firstCand))
				tkClass := "plain"
				switch {
				case protectedTk:
					tkClass = "protected-prefix"
				case strings.Contains(ticker, core.ElrondProtectedKeyPrefix):
					tkClass = "contains-protected-word"
				}

				name := []byte(fmt.Sprintf("Token%d", opIdx))
				args := [][]byte{name, []byte(ticker)}
				supply := big.NewInt(int64(rng.Range(1, 1000000)))
				if kind == "issue" {
					args = append(args, supply.Bytes(), []byte{byte(rng.Intn(19))})
				}
				callerCopy := append([]byte{}, caller...)
				out, err := w.sysVM.RunSmartContractCall(&vmcommon.ContractCallInput{
					VMInput:       vmcommon.VMInput{CallerAddr: callerCopy, CallValue: big.NewInt(1000), GasProvided: 100000, Arguments: args},
					RecipientAddr: vm.ESDTSCAddress,
					Function:      kind,
				})
				opIdx++
				r.Eval(1)
				r.Count("tx_"+kind, 1)
				r.Count("start_"+sc.name, 1)
				r.Count("tx_ticker_"+tkClass, 1)
				if err != nil || out == nil {
					r.Inconclusive(fmt.Sprintf("system VM error: %v", err))
					return
				}
				line := fmt.Sprintf("#%d %s ticker=%s caller=%x.. seed=%x.. start=%s firstCandidate=%s taken=%v", opIdx, kind, ticker, caller[:12], seed[:4], sc.name, firstCand, firstTaken)
				detail := func() map[string]interface{} {
					t := trace
					if len(t) > 80 {
						t = t[len(t)-80:]
					}
					return map[string]interface{}{"last_ops": append(append([]string{}, t...), line), "ticker": ticker, "start": sc.name}
				}
				if out.ReturnCode != vmcommon.Ok {
					line += fmt.Sprintf(" -> %v %q", out.ReturnCode, out.ReturnMessage)
					trace = append(trace, line)
					if !strings.Contains(out.ReturnMessage, exhaustedMsg) {
						if protectedTk {
							// a contract that refuses a ticker whose identifiers cannot be stored issues nothing: fine
							r.Count("protected_prefix_ticker_refused", 1)
							r.Shape(fmt.Sprintf("%s|%s|protected-prefix|refused", kind, sc.name))
							continue
						}
						r.Inconclusive(fmt.Sprintf("harness problem: issue rejected for another reason: %v %q", out.ReturnCode, out.ReturnMessage))
						return
					}
					r.Count("issue_failed_retries_exhausted", 1)
					if perTicker[ticker] < retryLimit {
						r.Violation(c.Idx, "spurious-exhaustion", fmt.Sprintf("%s failed with %q although only %d identifiers with ticker %s exist (retry limit %d)", kind, out.ReturnMessage, perTicker[ticker], ticker, retryLimit), detail())
					}
					r.Shape(fmt.Sprintf("%s|%s|exhausted", kind, sc.name))
					continue
				}
				// returned identifier
				var returned []byte
				if kind == "issue" {
					oa := out.OutputAccounts[string(caller)]
					if oa != nil {
						for _, t := range oa.OutputTransfers {
							parts := strings.Split(string(t.Data), "@")
							if len(parts) == 3 && parts[0] == core.BuiltInFunctionESDTTransfer {
								returned, _ = hex.DecodeString(parts[1])
								if got := new(big.Int); true {
									sb, _ := hex.DecodeString(parts[2])
									got.SetBytes(sb)
									if got.Cmp(supply) != 0 {
										r.Violation(c.Idx, "issue-transfer-wrong-supply", fmt.Sprintf("ESDTTransfer carries %s, issued %s", got, supply), detail())
									}
								}
							}
						}
					}
				} else if len(out.ReturnData) > 0 {
					returned = append([]byte{}, out.ReturnData[len(out.ReturnData)-1]...)
				}
				newKeys, dropped := w.apply(out)
				id := string(returned)
				line += " -> " + id
				if len(dropped) > 0 {
					line += fmt.Sprintf(" (storage updates not saved, key not allowed: %q)", dropped)
					r.Count("storage_updates_dropped_key_not_allowed", len(dropped))
				}
				trace = append(trace, line)
				r.Count("issued", 1)
				r.Count("issued_ticker_"+tkClass, 1)
				if len(returned) == 0 {
					r.Violation(c.Idx, "identifier-not-returned", fmt.Sprintf("%s succeeded but no identifier came back", kind), detail())
					continue
				}
				// observed in storage
				// protectedID: the returned identifier is a key the node refuses to save under
				protectedID := !process.IsAllowedToSaveUnderKey(returned)
				rec := w.store[akey{string(vm.ESDTSCAddress), id}]
				if protectedID && len(rec) == 0 {
					r.Violation(c.Idx, "stored-record-missing class=protected-prefix-ticker", fmt.Sprintf("%s of ticker %s returned Ok and identifier %q, but no token record is stored under it: the contract's update of key %q is not saved (process.IsAllowedToSaveUnderKey is false for keys starting with %q); updates not saved: %q, new ESDT storage keys: %q", kind, ticker, id, id, core.ElrondProtectedKeyPrefix, dropped, newKeys), detail())
				} else {
					if len(newKeys) != 1 || newKeys[0] != id {
						if _, dup := issued[id]; !dup { // a duplicate overwrites an existing key: reported below
							r.Violation(c.Idx, "identifier-not-stored", fmt.Sprintf("%s returned %q, new ESDT storage keys: %q", kind, id, newKeys), detail())
						}
					}
					var tok systemSmartContracts.ESDTData
					if err := (&marshal.GogoProtoMarshalizer{}).Unmarshal(&tok, rec); err != nil || string(tok.TickerName) != ticker || !bytes.Equal(tok.OwnerAddress, caller) {
						r.Violation(c.Idx, "stored-token-mismatch", fmt.Sprintf("record under %q: err=%v ticker=%q owner=%x, issued ticker %q by %x", id, err, tok.TickerName, tok.OwnerAddress, ticker, caller), detail())
					}
				}
				// well-formed
				depth := -1
				switch {
				case wellFormed.MatchString(id) && strings.HasPrefix(id, ticker+"-") && len(id) == len(ticker)+7:
					v, _ := new(big.Int).SetString(id[len(ticker)+1:], 16)
					bv := new(big.Int).SetBytes(base)
					depth = int(new(big.Int).Mod(new(big.Int).Sub(v, bv), big.NewInt(1<<24)).Int64())
					if v.Cmp(bv) < 0 {
						r.Count("wrapped_past_ffffff", 1)
					}
				case sevenHex.MatchString(id) && strings.HasPrefix(id, ticker+"-"):
					r.Violation(c.Idx, "malformed-identifier class=7-hex-digits", fmt.Sprintf("%s returned %q for ticker %s (first candidate %s)", kind, id, ticker, firstCand), detail())
				default:
					r.Violation(c.Idx, "malformed-identifier class=other", fmt.Sprintf("%s returned %q for ticker %s", kind, id, ticker), detail())
				}
				// unique
				if prev, dup := issued[id]; dup {
					if protectedID {
						r.Violation(c.Idx, "duplicate-identifier class=protected-prefix-ticker", fmt.Sprintf("%s of ticker %s returned %q which operation #%d already got: the record of that token was never saved (key starts with %q), so the contract found the identifier free again", kind, ticker, id, prev, core.ElrondProtectedKeyPrefix), detail())
					} else {
						r.Violation(c.Idx, "duplicate-identifier", fmt.Sprintf("%s returned %q which operation #%d already got", kind, id, prev), detail())
					}
				}
				issued[id] = opIdx
				perTicker[ticker]++
				r.Max("max_identifiers_per_ticker", int64(perTicker[ticker]))
				if depth >= 0 {
					r.Max("max_retry_depth", int64(depth))
				}
				if protectedTk {
					// the retry path cannot be reached with such a ticker while its records are not saved; own shapes,
					// not counted as "first candidate existed"
					o := "first"
					if firstTaken {
						o = "first-candidate-issued-before"
					}
					r.Shape(fmt.Sprintf("%s|%s|protected-prefix|%s", kind, sc.name, o))
				} else if firstTaken || sc.forced != nil {
					bucket := "d0"
					switch {
					case depth < 0:
						bucket = "malformed"
					case depth == 0:
					case depth < 5:
						bucket = "d1-4"
					case depth < 25:
						bucket = "d5-24"
					case depth < 49:
						bucket = "d25-48"
					case depth == 49:
						bucket = "d49"
					default:
						bucket = "d50+"
					}
					r.Shape(fmt.Sprintf("%s|%s|%s|ok", kind, sc.name, bucket))
					if firstTaken {
						r.Count("issues_whose_first_candidate_existed", 1)
					}
				} else {
					r.Trivial()
				}
				if firstTaken && depth > 2 && r.NeedSample() {
					r.Sample(map[string]interface{}{"case": c.Idx, "kind": kind, "ticker": ticker, "caller": vk.Hex(caller), "seed": vk.Hex(seed), "start": sc.name, "first_candidate": firstCand, "identifier": id, "retry_depth": depth})
				}
			}
		}
	})
	if r.Counter("issues_whose_first_candidate_existed") == 0 && r.ReplayCase < 0 {
		r.Inconclusive("the retry path was never reached")
	}
	if r.Counter("issue_failed_retries_exhausted") == 0 && r.ReplayCase < 0 {
		r.Inconclusive("the retry limit was never exceeded")
	}
	r.Finish()
}
