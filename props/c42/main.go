// C42 — per-peer flood quotas are enforced.
// Monitor shape: reference bounds over generated histories on the real quotaFloodPreventer (real LRU
// cacher large enough for all peers): IncreaseLoad from several peers, ApplyConsensusSize and Reset in
// between. Per peer and window (between two resets): accepted messages <= max(1, message quota in
// force when the message was accepted), accepted bytes <= byte quota + size of the first message, and
// the first message of a window is always accepted. A short concurrent phase (several goroutines, same
// peers, one window) checks the same bounds on the totals.
package main

import (
	"fmt"
	"os"
	"sync"
	"sync/atomic"

	logger "github.com/ElrondNetwork/elrond-go-logger"
	"github.com/ElrondNetwork/elrond-go/core"
	"github.com/ElrondNetwork/elrond-go/process/throttle/antiflood/floodPreventers"
	"github.com/ElrondNetwork/elrond-go/storage/lrucache"
	"verif/internal/vk"
)

type peerState struct {
	n     uint64 // accepted messages in this window
	bytes uint64 // accepted bytes in this window
	first uint64 // size of the first message of the window
	sent  uint64
}

type statusRecorder struct {
	resets int64
	quotas int64
}

func (s *statusRecorder) ResetStatistics() { atomic.AddInt64(&s.resets, 1) }
func (s *statusRecorder) AddQuota(_ core.PeerID, _ uint32, _ uint64, _ uint32, _ uint64) {
	atomic.AddInt64(&s.quotas, 1)
}
func (s *statusRecorder) IsInterfaceNil() bool { return s == nil }

type genArg struct {
	arg    floodPreventers.ArgQuotaFloodPreventer
	intent string
	walk   bool // boundary-walking workload: large, non-round quotas
}

const maxMsgSize = uint64(1) << 32 // the property's domain: message sizes up to 2^32

// largeQuota draws a large value that float32 cannot represent exactly (most of the time)
func largeQuota(rng *vk.Rand, maxBits int) uint64 {
	switch rng.Intn(8) {
	case 0:
		return (uint64(1) << 24) + uint64(1+2*rng.Intn(50)) // 2^24 + odd
	case 1:
		return 100000005
	case 2:
		return (uint64(1) << 32) + 300
	case 3:
		return (uint64(1) << 40) + 12345
	case 4:
		return 100000000 + uint64(rng.Intn(1000))
	default:
		bits := 25 + rng.Intn(maxBits-24)
		v := (uint64(1) << uint(bits-1)) | (rng.U64() & ((uint64(1) << uint(bits-1)) - 1))
		return v | 1
	}
}

func genArgs(rng *vk.Rand) genArg {
	g := genArg{intent: "valid"}
	a := floodPreventers.ArgQuotaFloodPreventer{Name: "verif"}
	switch rng.Intn(4) {
	case 0:
		a.BaseMaxNumMessagesPerPeer = 1
	case 1:
		a.BaseMaxNumMessagesPerPeer = uint32(1 + rng.Intn(5))
	default:
		a.BaseMaxNumMessagesPerPeer = uint32(1 + rng.Intn(60))
	}
	switch rng.Intn(5) {
	case 0:
		a.MaxTotalSizePerPeer = uint64(1 + rng.Intn(10))
	case 1:
		a.MaxTotalSizePerPeer = uint64(1 + rng.Intn(5000))
	case 2:
		a.MaxTotalSizePerPeer = uint64(1) << uint(10+rng.Intn(23)) // up to 2^32
	default:
		a.MaxTotalSizePerPeer = uint64(1 + rng.Intn(2000000))
	}
	switch rng.Intn(5) {
	case 0, 1:
		a.PercentReserved = 0
	case 2:
		a.PercentReserved = float32(rng.Intn(91))
	case 3:
		a.PercentReserved = float32(rng.Float() * 90)
	default:
		a.PercentReserved = []float32{90, 0.5, 89.99, 1, 50}[rng.Intn(5)]
	}
	a.IncreaseThreshold = uint32(rng.Intn(12))
	switch rng.Intn(4) {
	case 0:
		a.IncreaseFactor = 0
	case 1:
		a.IncreaseFactor = 1
	case 2:
		a.IncreaseFactor = float32(rng.Float() * 3)
	default:
		a.IncreaseFactor = float32(rng.Float())
	}
	if rng.Chance(1, 3) {
		// boundary-walking configs: large non-round byte quotas (reachable with <= 512 messages of 2^32 bytes,
		// a few unreachable ones up to ~2^62), message quotas that do not bind (also large and non-round)
		g.walk = true
		if rng.Chance(1, 8) {
			a.MaxTotalSizePerPeer = largeQuota(rng, 62)
		} else {
			a.MaxTotalSizePerPeer = largeQuota(rng, 41)
		}
		switch rng.Intn(3) {
		case 0:
			a.BaseMaxNumMessagesPerPeer = uint32(10000 + rng.Intn(90000))
		case 1:
			a.BaseMaxNumMessagesPerPeer = uint32(largeQuota(rng, 31))
		default:
			a.BaseMaxNumMessagesPerPeer = uint32(1<<24) + uint32(1+2*rng.Intn(50))
		}
		switch rng.Intn(10) {
		case 0, 1, 2, 3, 4, 5:
			a.PercentReserved = 0
		case 6, 7:
			a.PercentReserved = float32(rng.Float() * 10)
		default:
			a.PercentReserved = []float32{50, 89.99, 90, 75.5}[rng.Intn(4)]
		}
	}
	if rng.Chance(1, 10) {
		switch rng.Intn(5) {
		case 0:
			a.BaseMaxNumMessagesPerPeer, g.intent = 0, "base=0"
		case 1:
			a.MaxTotalSizePerPeer, g.intent = 0, "size=0"
		case 2:
			a.PercentReserved, g.intent = 90.5, "reserved>90"
		case 3:
			a.PercentReserved, g.intent = -1, "reserved<0"
		default:
			a.IncreaseFactor, g.intent = -0.1, "factor<0"
		}
	}
	g.arg = a
	return g
}

// quotaAfter mirrors the documented adjustment: base + uint32(float32(size-threshold)*factor) for sizes at or
// above the threshold (sizes < 1 or below the threshold leave the quota unchanged)
func quotaAfter(cur uint32, a *floodPreventers.ArgQuotaFloodPreventer, size int) uint32 {
	if size < 1 || a.IncreaseThreshold > uint32(size) {
		return cur
	}
	over := float32(uint32(size) - a.IncreaseThreshold)
	v := over * a.IncreaseFactor
	return a.BaseMaxNumMessagesPerPeer + uint32(v)
}

func main() {
	_ = logger.SetLogLevel("*:NONE")
	r := vk.Start("C42")
	r.Rule("one case = one constructor config (base quota 1..60, byte quota 1..2^32, reserved percent 0 (40%) / integer / fractional / 90, threshold 0..11, factor 0 / 1 / random; 1 in 10 invalid on purpose) and a history of 150..400 operations: IncreaseLoad(peer of 1..6; size profile of the case: tiny / mixed {0, 1, small, around the byte quota, up to 2^32} / a few messages fill the byte quota), ApplyConsensusSize(-1..40) ~5%, Reset 1..6%; 1 in 3 configs instead uses large non-round quotas (bytes: 2^24+odd, 1e8+5, 2^32+300, 2^40+12345, random odd up to 2^41, a few up to 2^62; messages: 1e4..1e5, random odd up to 2^31, 2^24+odd; reserved 0 (60%) / 0..10 / high) with a boundary-walking workload per peer and window: small first message (0..2 bytes), messages of up to 2^32 bytes up to 1..64 bytes below the documented limit, 48 increments of 1..8 bytes across it, then doubling increments beyond it; then one concurrent window (4..8 goroutines x 40 messages to 2 peers). Thorough adds 3 cases that walk a message quota of 2^24+{3,7,11} with 2^24+40 empty messages. Non-trivial = accepted config with at least one rejected and one accepted non-first message; distinct = distinct (quota bucket, byte-quota bucket, reserved class, #peers, saw-reset, saw-quota-change) tuples.")
	r.Assume(
		"cacher capacity (1000) exceeds the number of peers, so no quota entry is evicted inside a window",
		"message sizes <= 2^32; byte quotas up to ~2^62 (a byte boundary above 2^41 is not reachable with 520 messages and is only configured, not walked)",
		"the message quota in force is modelled from the constructor arguments and the ApplyConsensusSize calls (base + uint32(float32(size-threshold)*factor)); enforcement is what is checked",
		"consensus sizes <= 40, factor <= 3 and base quota < 2^31, so the adjusted quota fits uint32",
		"the limit that steers the boundary walk is the documented integer formula; the oracle is only the bound on accepted totals",
	)
	r.MinShapes(40)
	nCases := r.N(2000, 30000)
	var status statusRecorder

	nMsgWalk := r.N(0, 3)
	r.Parallel(nCases+nMsgWalk, func(c *vk.Case) {
		if c.Idx >= nCases {
			messageQuotaWalk(r, c, c.Idx-nCases)
			return
		}
		rng := c.Rng
		g := genArgs(rng)
		cache, err := lrucache.NewCache(1000)
		if err != nil {
			r.Inconclusive("cacher: " + err.Error())
			return
		}
		g.arg.Cacher = cache
		if rng.Bool() {
			g.arg.StatusHandlers = []floodPreventers.QuotaStatusHandler{&status}
		}
		qfp, err := floodPreventers.NewQuotaFloodPreventer(g.arg)
		if err != nil {
			r.Trivial()
			if g.intent == "valid" {
				r.Count("configs_rejected_though_meant_valid", 1) // the property quantifies over accepted configs only
			} else {
				r.Count("configs_rejected_invalid_on_purpose", 1)
			}
			return
		}
		if g.intent != "valid" {
			r.Count("configs_accepted_though_meant_invalid: "+g.intent, 1) // outside the harness's modelled domain
			return
		}
		r.Count("configs_accepted", 1)
		a := &g.arg
		maxSize := a.MaxTotalSizePerPeer
		quota := a.BaseMaxNumMessagesPerPeer
		nPeers := 1 + rng.Intn(6)
		peers := make([]core.PeerID, nPeers)
		for i := range peers {
			peers[i] = core.PeerID(fmt.Sprintf("peer-%d-%x", i, rng.Bytes(4)))
		}
		acc := map[core.PeerID]*peerState{}
		var hist []string
		log := func(s string) { // keeps the first 100 and the last 500 entries
			if len(hist) >= 600 {
				copy(hist[100:], hist[101:])
				hist = hist[:599]
			}
			hist = append(hist, s)
		}
		detail := func() map[string]interface{} {
			return map[string]interface{}{"base": a.BaseMaxNumMessagesPerPeer, "maxTotalSize": maxSize, "percentReserved": a.PercentReserved,
				"increaseThreshold": a.IncreaseThreshold, "increaseFactor": a.IncreaseFactor, "quotaInForce": quota, "history": hist}
		}
		// size profile of the case: 0 = tiny messages (the message-count quota binds), 1 = mixed,
		// 2 = a few messages fill the byte quota, 3 = boundary walk (large non-round quotas)
		profile := []int{0, 0, 1, 1, 2}[rng.Intn(5)]
		if g.walk {
			profile = 3
		}
		genSize := func() uint64 {
			if profile == 0 {
				if rng.Chance(1, 6) {
					return 0
				}
				return rng.U64() % (maxSize/400 + 2)
			}
			if profile == 2 {
				return maxSize/uint64(2+rng.Intn(4)) + uint64(rng.Intn(3))
			}
			switch rng.Intn(8) {
			case 0:
				return 0
			case 1:
				return 1
			case 2:
				return maxSize
			case 3:
				return maxSize + uint64(1+rng.Intn(10))
			case 4:
				return uint64(rng.U64() % (uint64(1)<<32 + 1))
			case 5:
				return rng.U64() % (maxSize + 10)
			default: // so that several messages fit
				return rng.U64() % (maxSize/uint64(1+rng.Intn(20)) + 2)
			}
		}
		sawReset, sawQuotaChange := false, false
		accepted, rejected, acceptedNonFirst := 0, 0, 0
		// send = one IncreaseLoad plus the oracle on the ACCEPTED totals of the peer's window
		send := func(pid core.PeerID, size uint64) bool {
			if size > maxMsgSize {
				size = maxMsgSize
			}
			err := qfp.IncreaseLoad(pid, size)
			r.Eval(1)
			s := acc[pid]
			if err != nil {
				rejected++
				log(fmt.Sprintf("IncreaseLoad(%s,%d) rejected", pid, size))
				if s == nil {
					r.Violation(c.Idx, "first-message-rejected", fmt.Sprintf("first message of a window (size %d) from %s rejected: %v", size, pid, err), detail())
					// keep the model aligned: the window has started for this peer
					acc[pid] = &peerState{first: size}
				} else {
					s.sent++
				}
				return false
			}
			accepted++
			if s == nil {
				s = &peerState{first: size}
				acc[pid] = s
			} else {
				acceptedNonFirst++
			}
			s.n++
			s.bytes += size
			s.sent++
			log(fmt.Sprintf("IncreaseLoad(%s,%d) ok (#%d, %d bytes)", pid, size, s.n, s.bytes))
			mq := uint64(quota)
			if mq < 1 {
				mq = 1
			}
			if s.n > mq {
				r.Violation(c.Idx, "messages-over-quota", fmt.Sprintf("peer accepted %d messages in one window, quota in force %d (base %d, reserved %v%%)", s.n, quota, a.BaseMaxNumMessagesPerPeer, a.PercentReserved), detail())
			}
			if s.bytes > maxSize+s.first {
				r.Violation(c.Idx, "bytes-over-quota", fmt.Sprintf("peer accepted %d bytes in one window, byte quota %d + first message %d (excess %d, reserved %v%%)", s.bytes, maxSize, s.first, s.bytes-maxSize-s.first, a.PercentReserved), detail())
			}
			r.Max("max_accepted_messages_per_peer_window", int64(s.n))
			if s.n == mq && s.n > 1 {
				r.Count("windows_where_a_peer_reached_the_message_quota", 1)
			}
			if s.bytes+1 >= maxSize && s.n > 1 {
				r.Count("acceptances_at_or_near_the_byte_quota", 1)
			}
			return true
		}
		reset := func() {
			qfp.Reset()
			acc = map[core.PeerID]*peerState{}
			sawReset = true
			log("Reset")
			r.Count("resets", 1)
		}
		applyConsensus := func() {
			cs := rng.Intn(42) - 1
			qfp.ApplyConsensusSize(cs)
			nq := quotaAfter(quota, a, cs)
			if nq != quota {
				sawQuotaChange = true
				r.Count("quota_changes", 1)
			}
			quota = nq
			log(fmt.Sprintf("ApplyConsensusSize(%d) -> quota %d", cs, quota))
		}
		if profile == 3 {
			// boundary walk: a small first message, large messages (<= 2^32 bytes each) up to just below the byte
			// limit, then increments of 1..8 bytes across it and doubling increments beyond it. The limit used
			// to steer the walk is the documented one ((100-reserved)% of the quota, integer arithmetic); the
			// oracle stays the bound on the accepted totals inside send().
			windows := 1 + rng.Intn(3)
			for w := 0; w < windows; w++ {
				if w > 0 {
					reset()
				}
				if rng.Chance(1, 3) {
					applyConsensus()
				}
				for _, pid := range peers[:1+rng.Intn(minInt(nPeers, 2))] {
					first := uint64(rng.Intn(3))
					if rng.Chance(1, 6) {
						first = uint64(rng.Intn(100))
					}
					if !send(pid, first) {
						continue
					}
					target := maxSize
					if maxSize < uint64(1)<<57 {
						target = uint64(100-a.PercentReserved) * maxSize / 100
					}
					margin := uint64(1 + rng.Intn(64))
					total := first
					ok := true
					bigs := 0
					for ok && total+margin < target && bigs < 520 {
						sz := minU64(maxMsgSize, target-margin-total)
						ok = send(pid, sz)
						total += sz
						bigs++
					}
					if !ok {
						r.Count("walks_rejected_before_the_boundary", 1)
						continue
					}
					if total+margin < target {
						r.Count("walks_boundary_unreachable_within_2^32_messages", 1)
						continue
					}
					r.Count("walks_reaching_the_boundary", 1)
					for i := 0; ok && i < 48; i++ {
						ok = send(pid, uint64(1+rng.Intn(8)))
					}
					for k := uint(4); ok && k <= 44; k++ {
						ok = send(pid, uint64(1)<<k) // capped at 2^32 by send
					}
					if ok {
						r.Count("walks_never_rejected", 1)
					}
				}
			}
		} else {
			resetPct := 1 + rng.Intn(6)
			nOps := 150 + rng.Intn(251)
			for j := 0; j < nOps; j++ {
				switch x := rng.Intn(100); {
				case x < resetPct:
					reset()
				case x < resetPct+5:
					applyConsensus()
				default:
					send(peers[rng.Intn(nPeers)], genSize())
				}
			}
		}
		r.Count("messages_accepted", accepted)
		r.Count("messages_rejected", rejected)
		r.Count("messages_accepted_after_the_first", acceptedNonFirst)

		// concurrent window: fixed size messages, totals checked after the join
		qfp.Reset()
		hist = append(hist, "Reset; concurrent window")
		workers := 4 + rng.Intn(5)
		msgSize := uint64(1 + rng.Intn(int(minU64(maxSize, 1000))))
		cPeers := []core.PeerID{peers[0], core.PeerID("concurrent-peer")}
		var okCount [2]int64
		var wg sync.WaitGroup
		for w := 0; w < workers; w++ {
			wg.Add(1)
			go func(w int) {
				defer wg.Done()
				for i := 0; i < 40; i++ {
					p := (w + i) % 2
					if qfp.IncreaseLoad(cPeers[p], msgSize) == nil {
						atomic.AddInt64(&okCount[p], 1)
					}
				}
			}(w)
		}
		wg.Wait()
		mq := int64(quota)
		if mq < 1 {
			mq = 1
		}
		for p := 0; p < 2; p++ {
			n := atomic.LoadInt64(&okCount[p])
			r.Eval(1)
			if n < 1 {
				r.Violation(c.Idx, "concurrent first-message-rejected", fmt.Sprintf("no message accepted from a peer in a fresh window (%d workers)", workers), detail())
			}
			if n > mq {
				r.Violation(c.Idx, "concurrent messages-over-quota", fmt.Sprintf("%d messages accepted concurrently, quota in force %d", n, quota), detail())
			}
			if uint64(n)*msgSize > maxSize+msgSize {
				r.Violation(c.Idx, "concurrent bytes-over-quota", fmt.Sprintf("%d x %d bytes accepted concurrently, byte quota %d", n, msgSize, maxSize), detail())
			}
		}
		r.Count("concurrent_windows", 1)

		if rejected == 0 || acceptedNonFirst == 0 {
			r.Trivial()
			return
		}
		resClass := "reserved=0"
		switch {
		case a.PercentReserved == 90:
			resClass = "reserved=90"
		case a.PercentReserved > 0 && a.PercentReserved != float32(int(a.PercentReserved)):
			resClass = "reserved=fractional"
		case a.PercentReserved > 0:
			resClass = "reserved=integer"
		}
		r.Shape(fmt.Sprintf("quota~2^%d bytes~2^%d %s peers=%d sizes=%d reset=%v quotachange=%v", bitLen(uint64(a.BaseMaxNumMessagesPerPeer)), bitLen(maxSize)/4*4, resClass, nPeers, profile, sawReset, sawQuotaChange))
		if r.NeedSample() && sawReset && sawQuotaChange && len(hist) > 20 {
			d := detail()
			d["history"] = hist[:20]
			d["accepted"], d["rejected"] = accepted, rejected
			r.Sample(d)
		}
	})
	r.Extra("status_handler_resets_seen", atomic.LoadInt64(&status.resets))
	r.Extra("status_handler_quota_reports_seen", atomic.LoadInt64(&status.quotas))
	// race-detector reports are evidence only for this property (it does not state race-freedom)
	r.Extra("race_detector_active", os.Getenv("VERIF_RACE_LOG") != "")
	races := vk.CollectRaces()
	if races == nil {
		races = []vk.RaceReport{}
	}
	r.Extra("race_reports", races)
	r.Finish()
}

// messageQuotaWalk walks a message quota just above 2^24 (not exactly representable in float32) with empty
// messages from one peer: accepted messages must stop at the quota.
func messageQuotaWalk(r *vk.Run, c *vk.Case, which int) {
	base := uint32(1<<24) + []uint32{3, 7, 11}[which%3]
	cache, err := lrucache.NewCache(1000)
	if err != nil {
		r.Inconclusive("cacher: " + err.Error())
		return
	}
	qfp, err := floodPreventers.NewQuotaFloodPreventer(floodPreventers.ArgQuotaFloodPreventer{Name: "verif-msgwalk", Cacher: cache,
		BaseMaxNumMessagesPerPeer: base, MaxTotalSizePerPeer: uint64(1) << 62, PercentReserved: 0, IncreaseThreshold: 0, IncreaseFactor: 0})
	if err != nil {
		r.Count("message_walk_config_rejected", 1)
		return
	}
	pid := core.PeerID("message-walk-peer")
	n, rejectedAt := uint64(0), uint64(0)
	total := uint64(base) + 40
	for i := uint64(1); i <= total; i++ {
		if qfp.IncreaseLoad(pid, 0) == nil {
			n++
			if n > uint64(base) {
				r.Violation(c.Idx, "messages-over-quota", fmt.Sprintf("peer accepted %d messages in one window, quota in force %d (large quota walk, reserved 0%%)", n, base),
					map[string]interface{}{"base": base, "accepted": n, "sent": i})
				break
			}
		} else if rejectedAt == 0 {
			rejectedAt = i
		}
	}
	r.Eval(1)
	r.Count("message_quota_walks", 1)
	r.Max("message_walk_accepted", int64(n))
	r.Shape(fmt.Sprintf("message-quota-walk base=2^24+%d firstRejectedAt=base+%d", base-(1<<24), int64(rejectedAt)-int64(base)))
}

func minInt(a, b int) int {
	if a < b {
		return a
	}
	return b
}

func minU64(a, b uint64) uint64 {
	if a < b {
		return a
	}
	return b
}

func bitLen(v uint64) int {
	n := 0
	for v > 0 {
		n++
		v >>= 1
	}
	return n
}
