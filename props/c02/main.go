// C02 — the state root hash depends only on the trie contents.
// Monitor shape: metamorphic oracle. For one final map M the root is computed through several different
// histories (canonical sorted inserts, a random history with overwrites and deletes, the same history with
// commits / RootHash calls / recreate-from-root interleaved, another maxTrieLevelInMemory, a permuted build with
// insert-then-delete noise, recreate under another level followed by touch-and-undo) and all roots must be
// byte-equal. The empty map must give EmptyTrieHash (fresh trie and after deleting everything).
// Variant 9 (fork.go) keeps several live tries over one storage (a committed trie and the tries recreated from it,
// each continued with its own operations) and compares every one of them, after every step, with a fresh trie.
package main

import (
	"bytes"
	"fmt"
	"sort"

	logger "github.com/ElrondNetwork/elrond-go-logger"
	"github.com/ElrondNetwork/elrond-go/data"
	"github.com/ElrondNetwork/elrond-go/data/trie"

	"verif/internal/triegen"
	"verif/internal/vk"
)

type op struct {
	del   bool
	viaUp bool // delete through Update(key, empty)
	key   []byte
	val   []byte
}

type opRec struct {
	Op    string `json:"op"`
	Key   string `json:"key"`
	Value string `json:"value,omitempty"`
}

func cp(b []byte) []byte { return append([]byte{}, b...) }

func apply(tr data.Trie, o op) error {
	if o.del {
		if o.viaUp {
			return tr.Update(cp(o.key), nil)
		}
		return tr.Delete(cp(o.key))
	}
	return tr.Update(cp(o.key), cp(o.val))
}

func sortedKeys(m map[string][]byte) []string {
	ks := make([]string, 0, len(m))
	for k := range m {
		ks = append(ks, k)
	}
	sort.Strings(ks)
	return ks
}

func main() {
	_ = logger.SetLogLevel("*:NONE")
	r := vk.Start("C02")
	r.Rule("each case: a pool of 4-32 structured keys (triegen.Pool), a random history of 10-80 updates/overwrites/deletes ending in a map M; " +
		"the root of M is computed through 8 histories over fresh real tries and compared with the canonical one (sorted inserts, nothing else). " +
		"Then every key is deleted again in random order and the root must be EmptyTrieHash. Variant 9 (fork): the history is replayed with commits on a trie with a small level, " +
		"then 6-14 steps each mutate (1-4 updates/deletes, no reads), commit or fork (Recreate at the line's own just-committed root, through another trie object, or at an older root) ONE of up to 4 live tries over the same storage; " +
		"after every step the root of EVERY live trie (also those not operated on) must equal the root of a fresh trie holding that trie's own pairs, and periodically the pairs it returns through Get are read back and a fresh trie holding exactly those must report the same root. A case is non-trivial when M has at least 2 keys and the " +
		"canonical trie of M has at least one branch; the shape signature is the canonical node counts of M (branches, extensions, leaves, depth) plus the two memory levels used.")
	r.Assume("blake2b collision resistance", "memorydb trusted", "no pruning is wired: commits only add nodes")
	r.MinShapes(50)

	emptyHash := make([]byte, 32)
	if !bytes.Equal(trie.EmptyTrieHash, emptyHash) {
		r.Violation(0, "empty-root constant", fmt.Sprintf("trie.EmptyTrieHash is %x, not 32 zero bytes", trie.EmptyTrieHash), nil)
	}

	nCases := r.N(1000, 30000)
	r.Parallel(nCases, func(c *vk.Case) {
		rng := c.Rng
		pool := triegen.Pool(rng, rng.Range(4, 32))
		// the random history
		nOps := rng.Range(10, 80)
		model := map[string][]byte{}
		var hist []op
		for i := 0; i < nOps; i++ {
			k := pool[rng.Intn(len(pool))]
			if rng.Chance(3, 10) {
				if len(model) > 0 && rng.Chance(3, 4) {
					ks := sortedKeys(model)
					k = []byte(ks[rng.Intn(len(ks))])
				}
				hist = append(hist, op{del: true, viaUp: rng.Bool(), key: k})
				delete(model, string(k))
			} else {
				v := triegen.Value(rng)
				hist = append(hist, op{key: k, val: v})
				model[string(k)] = v
			}
		}
		lvA := triegen.Levels[rng.Intn(len(triegen.Levels))]
		lvB := triegen.Levels[rng.Intn(len(triegen.Levels))]
		for lvB == lvA {
			lvB = triegen.Levels[rng.Intn(len(triegen.Levels))]
		}

		var histRec []opRec
		for _, o := range hist {
			if o.del {
				histRec = append(histRec, opRec{"delete", vk.Hex(o.key), ""})
			} else {
				histRec = append(histRec, opRec{"update", vk.Hex(o.key), vk.Hex(o.val)})
			}
		}
		detail := func(extra map[string]interface{}) map[string]interface{} {
			m := map[string]interface{}{"levelA": lvA, "levelB": lvB, "history": histRec, "final_keys": len(model)}
			for k, v := range extra {
				m[k] = v
			}
			return m
		}

		var envs []*triegen.Env
		defer func() {
			for _, e := range envs {
				e.Close()
			}
		}()
		newEnv := func(l uint) *triegen.Env {
			e, err := triegen.NewEnv(l)
			if err != nil {
				panic("harness: cannot build trie: " + err.Error())
			}
			envs = append(envs, e)
			return e
		}
		rootOf := func(tr data.Trie, name string) []byte {
			h, err := tr.RootHash()
			if err != nil {
				r.Violation(c.Idx, "op-error:RootHash", fmt.Sprintf("RootHash error in history %q: %v", name, err), detail(nil))
				return nil
			}
			return cp(h)
		}
		must := func(err error, name string, what string) bool {
			if err != nil {
				r.Violation(c.Idx, "op-error:"+what, fmt.Sprintf("%s error in history %q: %v", what, name, err), detail(nil))
				return false
			}
			return true
		}

		// canonical: sorted inserts into a fresh trie, nothing else
		canonEnv := newEnv(5)
		for _, k := range sortedKeys(model) {
			if !must(canonEnv.Trie.Update([]byte(k), cp(model[k])), "canonical", "Update") {
				return
			}
		}
		canon := rootOf(canonEnv.Trie, "canonical")
		if canon == nil {
			return
		}
		r.Eval(1)
		if len(model) == 0 && !bytes.Equal(canon, emptyHash) {
			r.Violation(c.Idx, "empty-root fresh", fmt.Sprintf("fresh empty trie reports %x", canon), detail(nil))
		}

		compare := func(name string, got []byte) bool {
			r.Eval(1)
			r.Count("roots_compared", 1)
			if got == nil {
				return false
			}
			if !bytes.Equal(got, canon) {
				r.Violation(c.Idx, "root-differs history="+name,
					fmt.Sprintf("same %d key-value pairs, canonical root %x, root through %q %x (levels %d/%d)", len(model), canon, name, got, lvA, lvB),
					detail(map[string]interface{}{"variant": name}))
				return false
			}
			return true
		}

		// 1: the random history, no commit
		e1 := newEnv(lvA)
		for _, o := range hist {
			if !must(apply(e1.Trie, o), "random-history", "Update/Delete") {
				return
			}
		}
		compare("random-history", rootOf(e1.Trie, "random-history"))

		// 2: the history with RootHash() read after every operation (cached hashes must be invalidated)
		e2 := newEnv(lvA)
		for _, o := range hist {
			if !must(apply(e2.Trie, o), "roothash-each-op", "Update/Delete") {
				return
			}
			_ = rootOf(e2.Trie, "roothash-each-op")
		}
		compare("roothash-each-op", rootOf(e2.Trie, "roothash-each-op"))

		// 3 and 4: commits interleaved, level A and level B
		commitPoints := map[int]bool{}
		for i := 0; i < 1+len(hist)/8; i++ {
			commitPoints[rng.Intn(len(hist))] = true
		}
		var envCommitA *triegen.Env
		for vi, lv := range []uint{lvA, lvB} {
			name := []string{"commits-levelA", "commits-levelB"}[vi]
			e := newEnv(lv)
			for i, o := range hist {
				if !must(apply(e.Trie, o), name, "Update/Delete") {
					return
				}
				if commitPoints[i] {
					if !must(e.Trie.Commit(), name, "Commit") {
						return
					}
					r.Count("commits", 1)
				}
			}
			compare(name+"-dirty", rootOf(e.Trie, name))
			if !must(e.Trie.Commit(), name, "Commit") {
				return
			}
			if compare(name, rootOf(e.Trie, name)) && vi == 0 {
				envCommitA = e
			}
		}

		// 5: commit + recreate from the root in the middle (once or twice), continue on the recreated trie
		e5 := newEnv(lvA)
		var tr5 data.Trie = e5.Trie
		recPoints := map[int]bool{rng.Intn(len(hist)): true}
		if rng.Bool() {
			recPoints[rng.Intn(len(hist))] = true
		}
		for i, o := range hist {
			if !must(apply(tr5, o), "recreate-midway", "Update/Delete") {
				return
			}
			if recPoints[i] {
				if !must(tr5.Commit(), "recreate-midway", "Commit") {
					return
				}
				rt := rootOf(tr5, "recreate-midway")
				nt, err := tr5.Recreate(rt)
				if !must(err, "recreate-midway", "Recreate") {
					return
				}
				tr5 = nt
				r.Count("recreates", 1)
			}
		}
		compare("recreate-midway", rootOf(tr5, "recreate-midway"))

		// 6: permuted inserts with noise: keys outside M inserted and deleted again, values first written wrong
		e6 := newEnv(lvB)
		ks := sortedKeys(model)
		perm := rng.Perm(len(ks))
		var noise [][]byte
		for _, k := range pool {
			if _, in := model[string(k)]; !in {
				noise = append(noise, k)
			}
		}
		for _, k := range noise {
			if rng.Bool() {
				if !must(e6.Trie.Update(cp(k), triegen.Value(rng)), "permuted+noise", "Update") {
					return
				}
			}
		}
		if rng.Bool() {
			if !must(e6.Trie.Commit(), "permuted+noise", "Commit") {
				return
			}
		}
		for _, pi := range perm {
			k := []byte(ks[pi])
			if rng.Chance(1, 3) {
				if !must(e6.Trie.Update(cp(k), triegen.Value(rng)), "permuted+noise", "Update") {
					return
				}
			}
			if !must(e6.Trie.Update(cp(k), cp(model[string(k)])), "permuted+noise", "Update") {
				return
			}
		}
		for _, ni := range rng.Perm(len(noise)) {
			if !must(e6.Trie.Delete(cp(noise[ni])), "permuted+noise", "Delete") {
				return
			}
		}
		compare("permuted+noise", rootOf(e6.Trie, "permuted+noise"))

		// 7: recreate the committed level-A trie through a trie with level B, then touch and undo:
		// insert a key outside M and delete it again (forces resolve, split and reduce on collapsed nodes),
		// overwrite a key of M with another value and write the old value back
		if envCommitA != nil {
			eA := envCommitA // storage of commits-levelA
			tB, err := eA.NewTrie(lvB)
			if !must(err, "recreate-other-level", "NewTrie") {
				return
			}
			nt, err := tB.Recreate(canon)
			if !must(err, "recreate-other-level", "Recreate") {
				return
			}
			compare("recreate-other-level", rootOf(nt, "recreate-other-level"))
			touched := 0
			for _, k := range noise {
				if touched >= 4 {
					break
				}
				touched++
				if !must(nt.Update(cp(k), triegen.Value(rng)), "touch-and-undo", "Update") {
					return
				}
				if rng.Bool() {
					_ = rootOf(nt, "touch-and-undo")
				}
				if rng.Chance(1, 4) {
					if !must(nt.Commit(), "touch-and-undo", "Commit") {
						return
					}
				}
				if !must(nt.Delete(cp(k)), "touch-and-undo", "Delete") {
					return
				}
			}
			if len(ks) > 0 {
				k := []byte(ks[rng.Intn(len(ks))])
				if !must(nt.Update(cp(k), append(cp(model[string(k)]), 0x5a)), "touch-and-undo", "Update") {
					return
				}
				_ = rootOf(nt, "touch-and-undo")
				if !must(nt.Update(cp(k), cp(model[string(k)])), "touch-and-undo", "Update") {
					return
				}
			}
			compare("touch-and-undo", rootOf(nt, "touch-and-undo"))
			if !must(nt.Commit(), "touch-and-undo", "Commit") {
				return
			}
			compare("touch-and-undo-committed", rootOf(nt, "touch-and-undo"))

			// 8: delete everything in random order on this (partially collapsed) trie: EmptyTrieHash;
			// half-way the root must be the canonical root of the remaining half
			order := rng.Perm(len(ks))
			half := len(order) / 2
			rest := map[string][]byte{}
			for _, oi := range order[half:] {
				rest[ks[oi]] = model[ks[oi]]
			}
			for i, oi := range order {
				if i == half && half > 0 {
					eh := newEnv(3)
					for _, k := range sortedKeys(rest) {
						if !must(eh.Trie.Update([]byte(k), cp(rest[k])), "canonical-half", "Update") {
							return
						}
					}
					want := rootOf(eh.Trie, "canonical-half")
					got := rootOf(nt, "delete-half")
					r.Eval(1)
					r.Count("roots_compared", 1)
					if want != nil && got != nil && !bytes.Equal(want, got) {
						r.Violation(c.Idx, "root-differs history=delete-half",
							fmt.Sprintf("after deleting %d of %d keys from the recreated trie: root %x, canonical root of the remaining pairs %x", half, len(ks), got, want),
							detail(map[string]interface{}{"variant": "delete-half"}))
					}
				}
				k := []byte(ks[oi])
				var derr error
				if rng.Bool() {
					derr = nt.Delete(cp(k))
				} else {
					derr = nt.Update(cp(k), []byte{})
				}
				if !must(derr, "delete-all", "Delete") {
					return
				}
			}
			got := rootOf(nt, "delete-all")
			r.Eval(1)
			r.Count("empty_root_checks", 1)
			if got != nil && !bytes.Equal(got, emptyHash) {
				r.Violation(c.Idx, "empty-root after-delete-all", fmt.Sprintf("all %d keys deleted, RootHash %x", len(ks), got), detail(nil))
			}
		}
		// delete everything from the never-committed trie of variant 1 as well
		for _, oi := range rng.Perm(len(ks)) {
			if !must(e1.Trie.Delete([]byte(ks[oi])), "delete-all-dirty", "Delete") {
				return
			}
		}
		if got := rootOf(e1.Trie, "delete-all-dirty"); got != nil {
			r.Eval(1)
			r.Count("empty_root_checks", 1)
			if !bytes.Equal(got, emptyHash) {
				r.Violation(c.Idx, "empty-root after-delete-all", fmt.Sprintf("all %d keys deleted (never committed), RootHash %x", len(ks), got), detail(nil))
			}
		}

		// 9: fork - several live tries over one storage, each with its own history (fork.go)
		runForkVariant(r, c, pool, hist, model, canon, detail)

		var keyList [][]byte
		for _, k := range ks {
			keyList = append(keyList, []byte(k))
		}
		sh := triegen.ShapeOf(keyList)
		if len(ks) >= 2 && sh.Branches >= 1 {
			r.Shape(fmt.Sprintf("%s L%d/%d", sh, lvA, lvB))
		} else {
			r.Trivial()
		}
		r.Max("max_final_keys", int64(len(ks)))
		r.Max("max_canonical_depth", int64(sh.Depth))
		r.Count("histories", 1)
		if len(ks) == 0 {
			r.Count("empty_final_maps", 1)
		}
		if c.Idx < 40 && r.NeedSample() && len(ks) >= 2 {
			var fk []string
			for _, k := range ks {
				fk = append(fk, vk.Hex([]byte(k)))
			}
			if len(fk) > 8 {
				fk = fk[:8]
			}
			r.Sample(map[string]interface{}{"case": c.Idx, "levels": []uint{lvA, lvB}, "history_ops": len(hist), "final_keys_first8": fk, "canonical_shape": sh.String(), "root": vk.Hex(canon)})
		}
	})
	if r.ReplayCase < 0 && r.Violations() == 0 && r.Counter("fork_cases_with_two_or_more_mutated_lines") < int64(nCases/2) {
		r.Inconclusive(fmt.Sprintf("fork variant: only %d cases had two or more live tries that were both mutated", r.Counter("fork_cases_with_two_or_more_mutated_lines")))
	}
	r.Finish()
}
