// C02, variant 9 "fork": several LIVE tries over one storage, each with its own history.
// The trie of the case history is committed and then forked with Recreate (at the root it holds itself, at an older
// committed root, directly or through another trie object with another level). Every trie object obtained this way is
// kept in use as an independent logical trie ("line") with its own model map; a step mutates, commits or forks ONE
// line. After every step the root hash of EVERY line is compared with the root a fresh trie reports for that line's
// own pairs - the lines that were not operated on in the step ("bystanders") included - and, periodically and at the
// end, the pairs each line actually returns through Get are read back and the root a fresh trie reports for exactly
// those pairs is compared as well (the statement itself: tries holding the same pairs report the same root).
package main

import (
	"bytes"
	"fmt"

	"github.com/ElrondNetwork/elrond-go/data"

	"verif/internal/triegen"
	"verif/internal/vk"
)

type forkRec struct {
	Line  string `json:"line"`
	Op    string `json:"op"`
	Key   string `json:"key,omitempty"`
	Value string `json:"value,omitempty"`
}

type forkLine struct {
	name  string
	tr    data.Trie
	model map[string][]byte
	want  []byte // root of a fresh trie holding model
	dirty bool
	ops   int
}

type forkRoot struct {
	root  []byte
	model map[string][]byte
}

func cpModel(m map[string][]byte) map[string][]byte {
	o := make(map[string][]byte, len(m))
	for k, v := range m {
		o[k] = cp(v)
	}
	return o
}

// forkLevels is biased towards small maxTrieLevelInMemory: Commit then collapses almost everything
var forkLevels = []uint{1, 1, 2, 2, 3, 5, 8}

func runForkVariant(r *vk.Run, c *vk.Case, pool [][]byte, hist []op, finalModel map[string][]byte, canon []byte,
	detail func(map[string]interface{}) map[string]interface{}) {
	rng := r.Rng(c.Idx, 9) // own stream: the other variants of the case are unchanged
	level := forkLevels[rng.Intn(len(forkLevels))]
	env, err := triegen.NewEnv(level)
	if err != nil {
		panic("harness: cannot build trie: " + err.Error())
	}
	defer env.Close()
	ref, err := triegen.NewRefBuilder()
	if err != nil {
		panic("harness: cannot build reference storage: " + err.Error())
	}
	defer ref.Close()

	var steps []forkRec
	fail := func(key, what string, extra map[string]interface{}) {
		d := map[string]interface{}{"variant": "fork", "fork_level": level, "fork_steps": steps}
		for k, v := range extra {
			d[k] = v
		}
		r.Violation(c.Idx, key, what, detail(d))
	}
	refRoot := func(m map[string][]byte) []byte {
		h, rerr := ref.Root(m)
		if rerr != nil {
			panic("harness: reference trie: " + rerr.Error())
		}
		return h
	}

	// ---- base: the case history with commits, ending clean at the canonical root
	var remembered []forkRoot
	run := map[string][]byte{}
	commitEvery := rng.Range(3, 12)
	for i, o := range hist {
		if aerr := apply(env.Trie, o); aerr != nil {
			fail("op-error:Update/Delete", fmt.Sprintf("fork base: %v", aerr), nil)
			return
		}
		if o.del {
			delete(run, string(o.key))
		} else {
			run[string(o.key)] = cp(o.val)
		}
		if i%commitEvery == commitEvery-1 {
			if cerr := env.Trie.Commit(); cerr != nil {
				fail("op-error:Commit", fmt.Sprintf("fork base: %v", cerr), nil)
				return
			}
			h, herr := env.Trie.RootHash()
			if herr != nil {
				fail("op-error:RootHash", fmt.Sprintf("fork base: %v", herr), nil)
				return
			}
			if len(remembered) < 6 {
				remembered = append(remembered, forkRoot{root: cp(h), model: cpModel(run)})
			}
		}
	}
	if cerr := env.Trie.Commit(); cerr != nil {
		fail("op-error:Commit", fmt.Sprintf("fork base: %v", cerr), nil)
		return
	}
	lines := []*forkLine{{name: "orig", tr: env.Trie, model: cpModel(finalModel), want: cp(canon)}}

	// ---- oracles
	// A: root of the line == root of a fresh trie holding the line's model
	checkRoot := func(l *forkLine, bystander bool) bool {
		r.Eval(1)
		r.Count("roots_compared", 1)
		suffix := "fork"
		if bystander {
			suffix = "fork-bystander"
			r.Count("fork_bystander_root_checks", 1)
		}
		h, herr := l.tr.RootHash()
		if herr != nil {
			fail("op-error:RootHash", fmt.Sprintf("fork line %s: %v", l.name, herr), nil)
			return false
		}
		if !bytes.Equal(h, l.want) {
			what := fmt.Sprintf("line %s holds %d pairs (own history), a fresh trie with these pairs reports %x, the line reports %x", l.name, len(l.model), l.want, h)
			if bystander {
				what += "; the line was NOT operated on in the last step (another trie object over the same storage was)"
			}
			fail("root-differs history="+suffix, what, map[string]interface{}{"line": l.name})
			return false
		}
		return true
	}
	// B: read back what the line holds; root of the line == root of a fresh trie holding exactly these pairs
	checkHeld := func(l *forkLine, bystander bool) bool {
		r.Eval(1)
		r.Count("fork_held_pairs_checks", 1)
		suffix := "fork"
		if bystander {
			suffix = "fork-bystander"
		}
		held := map[string][]byte{}
		same := true
		var firstDiff string
		for _, k := range pool {
			v, gerr := l.tr.Get(cp(k))
			if gerr != nil {
				fail("op-error:Get", fmt.Sprintf("fork line %s: Get(%x): %v", l.name, k, gerr), nil)
				return false
			}
			if len(v) > 0 {
				held[string(k)] = cp(v)
			}
			if !bytes.Equal(v, l.model[string(k)]) && same {
				same = false
				firstDiff = fmt.Sprintf("Get(%x) = %x, last written through this line %x", k, v, l.model[string(k)])
			}
		}
		h, herr := l.tr.RootHash()
		if herr != nil {
			fail("op-error:RootHash", fmt.Sprintf("fork line %s: %v", l.name, herr), nil)
			return false
		}
		wantHeld := l.want
		if !same {
			wantHeld = refRoot(held)
		}
		if !bytes.Equal(h, wantHeld) {
			fail("root-differs-from-held-pairs history="+suffix,
				fmt.Sprintf("line %s returns %d pairs through Get (%s); a fresh trie holding exactly the returned pairs reports %x, the line reports %x", l.name, len(held), firstDiff, wantHeld, h),
				map[string]interface{}{"line": l.name})
			return false
		}
		if !same && !bytes.Equal(h, l.want) {
			// consistent with what it returns, but not with its own history
			fail("root-differs history="+suffix,
				fmt.Sprintf("line %s: %s; root %x, a fresh trie with the pairs of the line's own history reports %x", l.name, firstDiff, h, l.want),
				map[string]interface{}{"line": l.name})
			return false
		}
		return true
	}
	checkAll := func(operated *forkLine, withHeld bool) bool {
		for _, l := range lines {
			if !checkRoot(l, operated != nil && l != operated) {
				return false
			}
		}
		if withHeld {
			for _, l := range lines {
				if !checkHeld(l, operated != nil && l != operated) {
					return false
				}
			}
		}
		return true
	}
	commit := func(l *forkLine) bool {
		steps = append(steps, forkRec{Line: l.name, Op: "commit"})
		if cerr := l.tr.Commit(); cerr != nil {
			fail("op-error:Commit", fmt.Sprintf("fork line %s: %v", l.name, cerr), nil)
			return false
		}
		l.dirty = false
		r.Count("commits", 1)
		if len(remembered) < 12 {
			remembered = append(remembered, forkRoot{root: cp(l.want), model: cpModel(l.model)})
		}
		return true
	}

	if !checkAll(lines[0], false) {
		return
	}

	nSteps := rng.Range(6, 14)
	for s := 0; s < nSteps; s++ {
		var operated *forkLine
		act := rng.Intn(100)
		switch {
		case s == 0 || (len(lines) < 4 && act < 22):
			// ---- fork a line
			p := lines[rng.Intn(len(lines))]
			if p.dirty && !commit(p) {
				return
			}
			if rng.Bool() { // load some of the nodes that Commit collapsed
				for i := 0; i < 3; i++ {
					k := pool[rng.Intn(len(pool))]
					steps = append(steps, forkRec{Line: p.name, Op: "get", Key: vk.Hex(k)})
					if _, gerr := p.tr.Get(cp(k)); gerr != nil {
						fail("op-error:Get", fmt.Sprintf("fork line %s: Get(%x): %v", p.name, k, gerr), nil)
						return
					}
				}
			}
			nl := &forkLine{name: fmt.Sprintf("fork%d", len(lines))}
			mode := rng.Intn(100)
			if s == 0 {
				mode = 0
			}
			var rerr error
			switch {
			case mode < 60 || len(remembered) == 0 && mode >= 75:
				steps = append(steps, forkRec{Line: nl.name, Op: "recreate-own-root-of:" + p.name, Key: vk.Hex(p.want)})
				nl.tr, rerr = p.tr.Recreate(cp(p.want))
				nl.model, nl.want = cpModel(p.model), cp(p.want)
				r.Count("fork_recreate_own_root", 1)
			case mode < 75:
				lv := triegen.Levels[rng.Intn(len(triegen.Levels))]
				steps = append(steps, forkRec{Line: nl.name, Op: fmt.Sprintf("recreate-through-new-trie-level-%d-root-of:%s", lv, p.name), Key: vk.Hex(p.want)})
				t2, nerr := env.NewTrie(lv)
				if nerr != nil {
					panic("harness: NewTrie: " + nerr.Error())
				}
				nl.tr, rerr = t2.Recreate(cp(p.want))
				nl.model, nl.want = cpModel(p.model), cp(p.want)
				r.Count("fork_recreate_other_trie", 1)
			default:
				old := remembered[rng.Intn(len(remembered))]
				steps = append(steps, forkRec{Line: nl.name, Op: "recreate-older-root-through:" + p.name, Key: vk.Hex(old.root)})
				nl.tr, rerr = p.tr.Recreate(cp(old.root))
				nl.model, nl.want = cpModel(old.model), cp(old.root)
				r.Count("fork_recreate_older_root", 1)
			}
			r.Count("recreates", 1)
			if rerr != nil || nl.tr == nil || nl.tr.IsInterfaceNil() {
				fail("op-error:Recreate", fmt.Sprintf("fork of line %s: %v", p.name, rerr), nil)
				return
			}
			lines = append(lines, nl)
			operated = nl
		case act < 34:
			// ---- commit a line
			l := lines[rng.Intn(len(lines))]
			if !commit(l) {
				return
			}
			operated = l
		default:
			// ---- mutate one line
			l := lines[rng.Intn(len(lines))]
			// prefer the lines with the fewest operations so far, so that every line is really used
			if o := lines[rng.Intn(len(lines))]; o.ops < l.ops {
				l = o
			}
			n := rng.Range(1, 4)
			for i := 0; i < n; i++ {
				k := pool[rng.Intn(len(pool))]
				kind := rng.Intn(100)
				live := sortedKeys(l.model)
				if kind < 65 && len(live) > 0 {
					k = []byte(live[rng.Intn(len(live))])
				}
				var o op
				if kind < 45 {
					o = op{del: true, viaUp: rng.Bool(), key: cp(k)}
					steps = append(steps, forkRec{Line: l.name, Op: "delete", Key: vk.Hex(k)})
					delete(l.model, string(k))
					r.Count("fork_deletes", 1)
				} else {
					o = op{key: cp(k), val: triegen.Value(rng)}
					steps = append(steps, forkRec{Line: l.name, Op: "update", Key: vk.Hex(k), Value: vk.Hex(o.val)})
					l.model[string(k)] = cp(o.val)
					r.Count("fork_updates", 1)
				}
				if aerr := apply(l.tr, o); aerr != nil {
					fail("op-error:Update/Delete", fmt.Sprintf("fork line %s: %v", l.name, aerr), nil)
					return
				}
				l.ops++
			}
			l.dirty = true
			l.want = refRoot(l.model)
			operated = l
		}
		if !checkAll(operated, rng.Chance(1, 4)) {
			return
		}
	}
	if !checkAll(nil, true) {
		return
	}
	used := 0
	for _, l := range lines {
		if l.ops > 0 {
			used++
		}
	}
	r.Count("fork_cases", 1)
	r.Count("fork_lines", len(lines))
	if used >= 2 {
		r.Count("fork_cases_with_two_or_more_mutated_lines", 1)
	}
	r.Max("fork_max_lines", int64(len(lines)))
}
