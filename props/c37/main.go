// C37 — validator ratings stay in range and move in the right direction; chance = configured band.
// Monitor shape: invariants over generated ratings configurations accepted by the real
// rating.NewRatingsData + rating.NewBlockSigningRater; every compute function of BlockSigningRater for
// ratings min..max (borders, band thresholds +-1, random) and streaks 0..200 (a few longer).
package main

import (
	"fmt"
	"math"
	"sort"

	logger "github.com/ElrondNetwork/elrond-go-logger"
	"github.com/ElrondNetwork/elrond-go/config"
	"github.com/ElrondNetwork/elrond-go/core"
	"github.com/ElrondNetwork/elrond-go/process/rating"
	"verif/internal/vk"
)

type chainGen struct {
	steps     config.RatingSteps
	consensus uint32
	nodes     uint32
}

type cfgGen struct {
	cfg       config.RatingsConfig
	arg       rating.RatingsDataArg
	intent    string // "valid" or the reason it was made invalid on purpose
	thrSorted []config.SelectionChance
	pinned    bool // max rating pinned near 2^32 / 2^31
}

func logUniform(rng *vk.Rand, lo, hi float64) float64 {
	return math.Exp(math.Log(lo) + rng.Float()*(math.Log(hi)-math.Log(lo)))
}

// genConfig builds a configuration that the constructors should mostly accept: the rating span
// (max - start) is derived from the wanted validator step so that both increase steps are >= 1.
func genConfig(rng *vk.Rand) *cfgGen {
	g := &cfgGen{intent: "valid"}
	round := uint64([]int{6000, 5000, 4000, 1000, 12000}[rng.Intn(5)])
	if rng.Chance(1, 5) {
		round = uint64(500 + rng.Intn(20000))
	}
	need := 1.0 // span needed so that every increase step is at least 1
	mk := func() chainGen {
		var ch chainGen
		ch.consensus = uint32(1 + rng.Intn(400))
		if rng.Bool() {
			ch.consensus = uint32([]int{1, 3, 7, 63, 400}[rng.Intn(5)])
		}
		ch.nodes = ch.consensus + uint32(rng.Intn(800))
		hours := uint32(1 + rng.Intn(100))
		if rng.Chance(1, 6) {
			hours = uint32(1 + rng.Intn(1000))
		}
		imp := float32(logUniform(rng, 0.05, 20))
		if rng.Chance(1, 4) {
			imp = float32(1 + rng.Intn(5))
		}
		pen := float32(1)
		switch rng.Intn(4) {
		case 0:
			pen = 1
		case 1:
			pen = 1.1 // production
		case 2:
			pen = float32(1 + logUniform(rng, 1e-6, 1))
		default:
			pen = float32(1 + rng.Float()*3)
		}
		ch.steps = config.RatingSteps{
			HoursToMaxRatingFromStartRating: hours,
			ProposerValidatorImportance:     imp,
			ProposerDecreaseFactor:          -float32(1 + rng.Float()*float64(rng.Intn(8))),
			ValidatorDecreaseFactor:         -float32(1 + rng.Float()*float64(rng.Intn(8))),
			ConsecutiveMissedBlocksPenalty:  pen,
		}
		if rng.Chance(1, 3) {
			ch.steps.ProposerDecreaseFactor, ch.steps.ValidatorDecreaseFactor = -4, -4 // production
		}
		blocks := float64(uint64(hours) * 3600000 / round)
		propProb := blocks / float64(ch.nodes)
		valProb := propProb * float64(ch.consensus)
		// validatorIncrease = span/(imp+1)/valProb ; proposerIncrease = span*imp/(imp+1)/propProb
		n1 := valProb * float64(imp+1)
		n2 := propProb * float64(imp+1) / float64(imp)
		if n1 > need {
			need = n1
		}
		if n2 > need {
			need = n2
		}
		return ch
	}
	shard, meta := mk(), mk()
	// wanted smallest step between 1 and a few thousand
	span := need * logUniform(rng, 1.02, 3000)
	if rng.Chance(1, 6) {
		span = need * (1.0 + rng.Float()*0.2) // close to the acceptance border
	}
	if span > 4.0e9 {
		span = 4.0e9
	}
	minR := uint32(1)
	if rng.Bool() {
		minR = uint32(1 + rng.Intn(1000))
	}
	startOff := uint32(0)
	switch rng.Intn(3) {
	case 0:
		startOff = 0
	case 1:
		startOff = uint32(rng.Intn(1000))
	default:
		startOff = uint32(rng.Intn(6000000))
	}
	start64 := uint64(minR) + uint64(startOff)
	max64 := start64 + uint64(span)
	if max64 > math.MaxUint32 {
		max64 = math.MaxUint32
	}
	start, maxR := uint32(start64), uint32(max64)
	// one in four: the maximum rating is pinned at or near the top of the uint32 / int32 range and the
	// start rating is derived from it (same span), so that increases close to the maximum cross 2^32 / 2^31
	if rng.Chance(1, 4) {
		maxR = []uint32{math.MaxUint32, math.MaxUint32 - 1, math.MaxUint32 - 1000, 1 << 31, 1<<31 + 5, 1<<31 - 1, math.MaxUint32 - uint32(rng.Intn(100000))}[rng.Intn(7)]
		sp := uint64(span)
		if sp < 1 {
			sp = 1
		}
		if sp > uint64(maxR-minR) {
			sp = uint64(maxR - minR)
		}
		start = maxR - uint32(sp)
		if rng.Chance(1, 3) { // a high minimum as well: the whole range sits near the top
			minR = start - uint32(rng.Intn(int(minU32(start-1, 5000))+1))
		}
		g.pinned = true
	}

	// bands: thresholds 0 and max are mandatory
	nb := 1 + rng.Intn(6)
	ths := map[uint32]bool{0: true, maxR: true}
	for tries := 0; len(ths) < nb+1 && tries < 50; tries++ {
		switch rng.Intn(4) {
		case 0:
			ths[uint32(rng.Intn(int(minU32(maxR, 1<<30))+1))] = true
		case 1:
			ths[minR+uint32(rng.Intn(int(minU32(maxR-minR, 1<<30))+1))] = true
		case 2:
			ths[start] = true
		default:
			ths[maxR-uint32(rng.Intn(int(minU32(maxR, 1000))+1))] = true
		}
	}
	var chances []*config.SelectionChance
	for t := range ths {
		chances = append(chances, &config.SelectionChance{MaxThreshold: t})
	}
	// map order is random per process: make the order a function of the rng only
	sort.Slice(chances, func(i, j int) bool { return chances[i].MaxThreshold < chances[j].MaxThreshold })
	for i := range chances {
		chances[i].ChancePercent = uint32(rng.Intn(40))
		if rng.Chance(1, 3) {
			chances[i].ChancePercent = uint32(i * 5) // increasing, like production
		}
	}
	for _, ch := range chances {
		g.thrSorted = append(g.thrSorted, *ch)
	}
	p := rng.Perm(len(chances))
	shuffled := make([]*config.SelectionChance, len(chances))
	for i, j := range p {
		shuffled[i] = chances[j]
	}

	g.cfg = config.RatingsConfig{
		General: config.General{StartRating: start, MaxRating: maxR, MinRating: minR,
			SignedBlocksThreshold: float32(rng.Float()), SelectionChances: shuffled},
		ShardChain: config.ShardChain{RatingSteps: shard.steps},
		MetaChain:  config.MetaChain{RatingSteps: meta.steps},
	}
	g.arg = rating.RatingsDataArg{Config: g.cfg, ShardConsensusSize: shard.consensus, MetaConsensusSize: meta.consensus,
		ShardMinNodes: shard.nodes, MetaMinNodes: meta.nodes, RoundDurationMiliseconds: round}

	// one in eight is made invalid on purpose (must be rejected or, if accepted, still satisfy the invariants)
	if rng.Chance(1, 8) {
		switch rng.Intn(9) {
		case 0:
			g.arg.Config.General.MinRating, g.intent = 0, "minRating=0"
		case 1:
			g.arg.Config.General.StartRating, g.intent = maxR, "start=max (zero span)"
		case 2:
			g.arg.Config.ShardChain.ConsecutiveMissedBlocksPenalty, g.intent = 0.99, "penalty<1"
		case 3:
			g.arg.Config.MetaChain.ProposerDecreaseFactor, g.intent = -0.5, "decrease factor>-1"
		case 4:
			g.arg.Config.General.SignedBlocksThreshold, g.intent = 1.5, "signedBlocksThreshold>1"
		case 5:
			g.arg.Config.ShardChain.HoursToMaxRatingFromStartRating, g.intent = 0, "hours=0"
		case 6: // no band for the max rating
			var kept []*config.SelectionChance
			for _, ch := range shuffled {
				if ch.MaxThreshold != maxR {
					kept = append(kept, ch)
				}
			}
			g.arg.Config.General.SelectionChances, g.intent = kept, "no band at max"
		case 7: // duplicate threshold
			g.arg.Config.General.SelectionChances = append(append([]*config.SelectionChance{}, shuffled...), &config.SelectionChance{MaxThreshold: shuffled[0].MaxThreshold, ChancePercent: 7})
			g.intent = "duplicate threshold"
		default:
			g.arg.Config.MetaChain.ValidatorDecreaseFactor, g.intent = -3e9, "decrease overflow"
		}
		g.cfg = g.arg.Config
	}
	return g
}

func minU32(a, b uint32) uint32 {
	if a < b {
		return a
	}
	return b
}

func main() {
	_ = logger.SetLogLevel("*:NONE")
	r := vk.Start("C37")
	r.Rule("one case = one generated ratings config (round time, per-chain consensus size / nodes / hours / importance / decrease factors / penalty in {1, 1.1, 1+tiny, 1..4}; rating span derived so that the increase steps are >= 1, sometimes right at the acceptance border; 1..6 extra chance bands, shuffled order; 1 in 8 invalid on purpose) passed to the real NewRatingsData and NewBlockSigningRater; for accepted configs: both chains x ratings {min, min+1, max-1, max, start, every band threshold and its neighbours, within 1..3 steps of max and of min for each of the eight configured steps, random}; 1 in 4 configs pins the maximum rating at 2^32-1, 2^32-2, 2^32-1001, 2^31(+5,-1) or just below 2^32 with the start rating derived from it x all compute functions, streaks 0..200 plus a few up to 5000. Non-trivial = accepted config; distinct = distinct (bands, penalty class, step-size buckets, span bucket) tuples.")
	r.Assume(
		"ratings passed to the compute functions are within [min,max] (what the peer accounts hold); GetChance is queried for 0..max",
		"finite float configuration values",
	)
	r.MinShapes(40)
	nCases := r.N(1000, 24000)

	r.Parallel(nCases, func(c *vk.Case) {
		rng := c.Rng
		g := genConfig(rng)
		rd, err := rating.NewRatingsData(g.arg)
		var bsr *rating.BlockSigningRater
		if err == nil {
			bsr, err = rating.NewBlockSigningRater(rd)
		}
		if err != nil {
			r.Trivial()
			if g.intent == "valid" {
				r.Count("configs_rejected_though_meant_valid", 1)
			} else {
				r.Count("configs_rejected_invalid_on_purpose", 1)
			}
			return
		}
		if g.intent != "valid" {
			r.Count("configs_accepted_though_meant_invalid: "+g.intent, 1)
		}
		r.Count("configs_accepted", 1)
		gen := g.arg.Config.General
		minR, maxR, start := gen.MinRating, gen.MaxRating, gen.StartRating
		in := func(x uint32) bool { return x >= minR && x <= maxR }
		// reference band lookup: sorted thresholds, first band whose threshold >= rating
		var bands []config.SelectionChance
		for _, ch := range gen.SelectionChances {
			bands = append(bands, *ch)
		}
		sort.Slice(bands, func(i, j int) bool { return bands[i].MaxThreshold < bands[j].MaxThreshold })
		refChance := func(x uint32) (uint32, bool) {
			for _, b := range bands {
				if b.MaxThreshold >= x {
					return b.ChancePercent, true
				}
			}
			return 0, false
		}
		detail := func(extra map[string]interface{}) map[string]interface{} {
			var bl []string
			for _, b := range bands {
				bl = append(bl, fmt.Sprintf("<=%d:%d", b.MaxThreshold, b.ChancePercent))
			}
			d := map[string]interface{}{"min": minR, "max": maxR, "start": start, "bands": bl, "shardSteps": fmt.Sprintf("%+v", g.arg.Config.ShardChain.RatingSteps),
				"metaSteps": fmt.Sprintf("%+v", g.arg.Config.MetaChain.RatingSteps), "shardConsensus": g.arg.ShardConsensusSize, "metaConsensus": g.arg.MetaConsensusSize,
				"shardNodes": g.arg.ShardMinNodes, "metaNodes": g.arg.MetaMinNodes, "roundMs": g.arg.RoundDurationMiliseconds, "intent": g.intent}
			for k, v := range extra {
				d[k] = v
			}
			return d
		}
		viol := func(key, what string, extra map[string]interface{}) {
			r.Violation(c.Idx, key, what, detail(extra))
		}

		if bsr.GetStartRating() != start {
			viol("start-rating", fmt.Sprintf("GetStartRating %d != configured %d", bsr.GetStartRating(), start), nil)
		}

		// ratings to probe
		ratings := []uint32{minR, maxR, start}
		if maxR > minR {
			ratings = append(ratings, minR+1, maxR-1)
		}
		for _, b := range bands {
			for _, d := range []int64{-1, 0, 1} {
				x := int64(b.MaxThreshold) + d
				if x >= int64(minR) && x <= int64(maxR) {
					ratings = append(ratings, uint32(x))
				}
			}
		}
		for i := 0; i < 12; i++ {
			ratings = append(ratings, minR+uint32(rng.U64()%uint64(maxR-minR+1)))
		}
		for i := 0; i < 4; i++ { // close to the borders
			off := uint32(rng.U64() % uint64(minU32(maxR-minR, 100000)+1))
			ratings = append(ratings, maxR-off, minR+off)
		}
		// within a few steps of the maximum and of the minimum, for every configured step size
		clampAdd := func(x int64) {
			if x < int64(minR) {
				x = int64(minR)
			}
			if x > int64(maxR) {
				x = int64(maxR)
			}
			ratings = append(ratings, uint32(x))
		}
		for _, sh := range []interface {
			ProposerIncreaseRatingStep() int32
			ProposerDecreaseRatingStep() int32
			ValidatorIncreaseRatingStep() int32
			ValidatorDecreaseRatingStep() int32
		}{rd.ShardChainRatingsStepHandler(), rd.MetaChainRatingsStepHandler()} {
			for _, st := range []int32{sh.ProposerIncreaseRatingStep(), sh.ValidatorIncreaseRatingStep(), sh.ProposerDecreaseRatingStep(), sh.ValidatorDecreaseRatingStep()} {
				step := int64(st)
				if step < 0 {
					step = -step
				}
				k := int64(1 + rng.Intn(3))
				clampAdd(int64(maxR) - step + 1)
				clampAdd(int64(maxR) - step)
				clampAdd(int64(maxR) - k*step - int64(rng.Intn(3)))
				clampAdd(int64(maxR) - int64(rng.U64()%uint64(step+1)))
				clampAdd(int64(minR) + step - 1)
				clampAdd(int64(minR) + k*step + int64(rng.Intn(3)))
			}
		}
		if g.pinned {
			r.Count("configs_accepted_with_max_rating_near_2^32_or_2^31", 1)
		}

		stepSig := ""
		for _, sh := range []uint32{0, core.MetachainShardId} {
			name := "shard"
			if sh == core.MetachainShardId {
				name = "meta"
			}
			for _, cur := range ratings {
				a := bsr.ComputeIncreaseProposer(sh, cur)
				b := bsr.ComputeIncreaseValidator(sh, cur)
				d := bsr.ComputeDecreaseValidator(sh, cur)
				r.Eval(3)
				ex := map[string]interface{}{"chain": name, "rating": cur, "increaseProposer": a, "increaseValidator": b, "decreaseValidator": d}
				if !in(a) || !in(b) || !in(d) {
					viol("out-of-range", fmt.Sprintf("%s rating %d in [%d,%d]: incProposer %d incValidator %d decValidator %d", name, cur, minR, maxR, a, b, d), ex)
				}
				if a < cur || b < cur {
					viol("increase-lowered", fmt.Sprintf("%s rating %d: incProposer %d incValidator %d", name, cur, a, b), ex)
				}
				if d > cur {
					viol("decrease-raised", fmt.Sprintf("%s rating %d: decValidator %d", name, cur, d), ex)
				}
				if cur < maxR && a > cur {
					r.Count("increases_that_moved", 1)
				}
				if a == maxR && cur < maxR {
					r.Count("increases_clamped_at_max", 1)
				}
				if d == minR && cur > minR {
					r.Count("decreases_clamped_at_min", 1)
				}
				// streaks
				maxStreak := uint32(200)
				if rng.Chance(1, 50) {
					maxStreak = 5000
				}
				prev := uint32(math.MaxUint32)
				for k := uint32(0); k <= maxStreak; k++ {
					if k > 60 && maxStreak == 200 && k%7 != 0 {
						continue
					}
					if k > 200 && k%97 != 0 {
						continue
					}
					dp := bsr.ComputeDecreaseProposer(sh, cur, k)
					r.Eval(1)
					if !in(dp) {
						viol("out-of-range", fmt.Sprintf("%s rating %d streak %d: decProposer %d not in [%d,%d]", name, cur, k, dp, minR, maxR), ex)
					}
					if dp > cur {
						viol("decrease-raised", fmt.Sprintf("%s rating %d streak %d: decProposer %d", name, cur, k, dp), ex)
					}
					if dp > prev {
						viol("longer-streak-higher-rating", fmt.Sprintf("%s rating %d: streak %d gives %d, shorter streak gave %d", name, cur, k, dp, prev), ex)
					}
					if dp < prev && prev != math.MaxUint32 {
						r.Count("streak_steps_that_lowered", 1)
					}
					prev = dp
				}
				for _, nrev := range []uint32{0, 1, uint32(rng.Intn(1000)), uint32(rng.U64())} {
					rv := bsr.RevertIncreaseValidator(sh, cur, nrev)
					r.Eval(1)
					if !in(rv) || rv > cur {
						viol("revert-increase", fmt.Sprintf("%s rating %d reverts %d: %d", name, cur, nrev, rv), ex)
					}
				}
			}
			ip := bsr.ComputeIncreaseProposer(sh, minR)
			stepSig += fmt.Sprintf(" %s-step~2^%d", name, bitLen(uint64(ip-minR))/4*4)
		}
		// chance bands: ratings 0..max
		chanceRatings := append([]uint32{0}, ratings...)
		if minR > 1 {
			chanceRatings = append(chanceRatings, uint32(rng.Intn(int(minR))))
		}
		for _, x := range chanceRatings {
			want, ok := refChance(x)
			if !ok {
				continue
			}
			got := bsr.GetChance(x)
			r.Eval(1)
			if got != want {
				viol("chance-band", fmt.Sprintf("GetChance(%d) = %d, band says %d", x, got, want), map[string]interface{}{"rating": x, "got": got, "want": want})
			}
		}
		penClass := func(p float32) string {
			switch {
			case p == 1:
				return "1"
			case p < 1.01:
				return "1+tiny"
			case p < 1.5:
				return "<1.5"
			}
			return ">=1.5"
		}
		r.Shape(fmt.Sprintf("bands=%d pen=%s/%s span~2^%d%s", len(bands), penClass(g.arg.Config.ShardChain.ConsecutiveMissedBlocksPenalty),
			penClass(g.arg.Config.MetaChain.ConsecutiveMissedBlocksPenalty), bitLen(uint64(maxR-start))/4*4, stepSig))
		if r.NeedSample() && len(bands) >= 3 {
			r.Sample(detail(map[string]interface{}{"example": fmt.Sprintf("shard: incProposer(start)=%d decProposer(start,3)=%d chance(start)=%d",
				bsr.ComputeIncreaseProposer(0, start), bsr.ComputeDecreaseProposer(0, start, 3), bsr.GetChance(start))}))
		}
	})
	acc := r.Counter("configs_accepted")
	r.Extra("accepted_fraction", float64(acc)/float64(nCases))
	if acc < int64(nCases)/4 && r.ReplayCase < 0 {
		r.Inconclusive(fmt.Sprintf("only %d of %d generated configurations were accepted", acc, nCases))
	}
	r.Finish()
}

func bitLen(v uint64) int {
	n := 0
	for v > 0 {
		n++
		v >>= 1
	}
	return n
}
