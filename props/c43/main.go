// C43 — goroutine throttler bounds concurrent work.
// Monitor shape: INV under stress (in-flight = starts - ends observed by a decorator around the REAL
// NumGoRoutinesThrottler, plugged into the real SingleDataInterceptor, MultiDataInterceptor and miniblock
// resolver) + strict sequential sub-check (slots held open: exactly max admissions) + bare-throttler accounting.
package main

import (
	"errors"
	"fmt"
	"runtime"
	"sync"
	"sync/atomic"
	"time"

	logger "github.com/ElrondNetwork/elrond-go-logger"
	"github.com/ElrondNetwork/elrond-go/core"
	"github.com/ElrondNetwork/elrond-go/core/throttler"
	"github.com/ElrondNetwork/elrond-go/data/batch"
	"github.com/ElrondNetwork/elrond-go/data/block"
	"github.com/ElrondNetwork/elrond-go/dataRetriever"
	drmock "github.com/ElrondNetwork/elrond-go/dataRetriever/mock"
	"github.com/ElrondNetwork/elrond-go/dataRetriever/resolvers"
	"github.com/ElrondNetwork/elrond-go/marshal"
	"github.com/ElrondNetwork/elrond-go/p2p"
	"github.com/ElrondNetwork/elrond-go/process"
	"github.com/ElrondNetwork/elrond-go/process/interceptors"
	"github.com/ElrondNetwork/elrond-go/process/mock"
	"github.com/ElrondNetwork/elrond-go/testscommon"
	"github.com/ElrondNetwork/elrond-go/testscommon/p2pmocks"
	"verif/internal/vk"
)

// obs decorates the real throttler: counts in-flight tasks (starts - ends) and remembers the maximum.
// The in-flight counter is raised AFTER the real StartProcessing and lowered BEFORE the real
// EndProcessing, so it never exceeds the real throttler's own counter.
type obs struct {
	real     *throttler.NumGoRoutinesThrottler
	inflight int32
	max      int32
	yields   int // Gosched calls between the real CanProcess result and the return
	starts   int64
	ends     int64
	denied   int64
}

func (o *obs) CanProcess() bool {
	r := o.real.CanProcess()
	for i := 0; i < o.yields; i++ {
		runtime.Gosched()
	}
	if !r {
		atomic.AddInt64(&o.denied, 1)
	}
	return r
}

func (o *obs) StartProcessing() {
	o.real.StartProcessing()
	atomic.AddInt64(&o.starts, 1)
	n := atomic.AddInt32(&o.inflight, 1)
	for {
		m := atomic.LoadInt32(&o.max)
		if n <= m || atomic.CompareAndSwapInt32(&o.max, m, n) {
			break
		}
	}
}

func (o *obs) EndProcessing() {
	atomic.AddInt32(&o.inflight, -1)
	atomic.AddInt64(&o.ends, 1)
	o.real.EndProcessing()
}

func (o *obs) IsInterfaceNil() bool { return o == nil }

func newObs(limit int32, yields int) *obs {
	rt, err := throttler.NewNumGoRoutinesThrottler(limit)
	if err != nil {
		panic(err)
	}
	return &obs{real: rt, yields: yields}
}

// waitDrained waits (bounded) until every admitted task has called EndProcessing
func waitDrained(o *obs) bool {
	for i := 0; i < 200000; i++ {
		if atomic.LoadInt32(&o.inflight) == 0 {
			return true
		}
		if i < 1000 {
			runtime.Gosched()
		} else {
			time.Sleep(50 * time.Microsecond)
		}
	}
	return false
}

// ------------------------------------------------------------------------------------------------
// sites: the real components, with the decorated throttler and a "hold" callback as the work

var msh = &marshal.GogoProtoMarshalizer{}

var siteNames = []string{"SingleDataInterceptor", "MultiDataInterceptor", "resolver"}

type site struct {
	name    string
	busy    func(err error) bool
	deliver func(sender, i int) error
}

func dataFactory() *mock.InterceptedDataFactoryStub {
	return &mock.InterceptedDataFactoryStub{CreateCalled: func(buff []byte) (process.InterceptedData, error) {
		h := append([]byte{}, buff...)
		return &testscommon.InterceptedDataStub{
			CheckValidityCalled:     func() error { return nil },
			IsForCurrentShardCalled: func() bool { return true },
			HashCalled:              func() []byte { return h },
		}, nil
	}}
}

func peerOf(sender int) core.PeerID { return core.PeerID(fmt.Sprintf("peer-%d", sender)) }

func buildSite(kind int, thr *obs, hold func()) (*site, error) {
	switch kind {
	case 0:
		sdi, err := interceptors.NewSingleDataInterceptor(interceptors.ArgSingleDataInterceptor{
			Topic: "t", Throttler: thr, AntifloodHandler: &mock.P2PAntifloodHandlerStub{}, WhiteListRequest: &testscommon.WhiteListHandlerStub{},
			PreferredPeersHolder: &p2pmocks.PeersHolderStub{}, CurrentPeerId: "me", DataFactory: dataFactory(),
			Processor: &mock.InterceptorProcessorStub{
				ValidateCalled: func(process.InterceptedData) error { hold(); return nil },
				SaveCalled:     func(process.InterceptedData) error { return nil }},
		})
		if err != nil {
			return nil, err
		}
		return &site{name: siteNames[0], busy: func(err error) bool { return errors.Is(err, process.ErrSystemBusy) },
			deliver: func(sender, i int) error {
				p := peerOf(sender)
				msg := &mock.P2PMessageMock{DataField: []byte(fmt.Sprintf("m-%d-%d", sender, i)), PeerField: p, FromField: []byte(p), TopicField: "t"}
				return sdi.ProcessReceivedMessage(msg, p)
			}}, nil
	case 1:
		mdi, err := interceptors.NewMultiDataInterceptor(interceptors.ArgMultiDataInterceptor{
			Topic: "t", Marshalizer: msh, Throttler: thr, AntifloodHandler: &mock.P2PAntifloodHandlerStub{}, WhiteListRequest: &testscommon.WhiteListHandlerStub{},
			PreferredPeersHolder: &p2pmocks.PeersHolderStub{}, CurrentPeerId: "me", DataFactory: dataFactory(),
			Processor: &mock.InterceptorProcessorStub{
				ValidateCalled: func(process.InterceptedData) error { hold(); return nil },
				SaveCalled:     func(process.InterceptedData) error { return nil }},
		})
		if err != nil {
			return nil, err
		}
		return &site{name: siteNames[1], busy: func(err error) bool { return errors.Is(err, process.ErrSystemBusy) },
			deliver: func(sender, i int) error {
				p := peerOf(sender)
				buff, _ := msh.Marshal(&batch.Batch{Data: [][]byte{[]byte(fmt.Sprintf("m-%d-%d", sender, i))}})
				msg := &mock.P2PMessageMock{DataField: buff, PeerField: p, FromField: []byte(p), TopicField: "t"}
				return mdi.ProcessReceivedMessage(msg, p)
			}}, nil
	default:
		res, err := resolvers.NewMiniblockResolver(resolvers.ArgMiniblockResolver{
			SenderResolver: &drmock.TopicResolverSenderStub{SendCalled: func([]byte, core.PeerID) error { hold(); return nil }},
			MiniBlockPool: &testscommon.CacherStub{PeekCalled: func(key []byte) (interface{}, bool) {
				return &block.MiniBlock{TxHashes: [][]byte{key}}, true
			}},
			MiniBlockStorage: &testscommon.StorerStub{}, Marshalizer: msh, AntifloodHandler: &drmock.P2PAntifloodHandlerStub{},
			Throttler: thr, DataPacker: &drmock.DataPackerStub{},
		})
		if err != nil {
			return nil, err
		}
		var _ p2p.MessageProcessor = res
		return &site{name: siteNames[2], busy: func(err error) bool { return errors.Is(err, dataRetriever.ErrSystemBusy) },
			deliver: func(sender, i int) error {
				p := peerOf(sender)
				buff, _ := msh.Marshal(&dataRetriever.RequestData{Type: dataRetriever.HashType, Value: []byte(fmt.Sprintf("mb-%d-%d", sender, i))})
				msg := &drmock.P2PMessageMock{DataField: buff, PeerField: p, FromField: []byte(p), TopicField: "t"}
				return res.ProcessReceivedMessage(msg, p)
			}}, nil
	}
}

// ------------------------------------------------------------------------------------------------
// A. bare throttler: sequential accounting model + a caller that checks and starts atomically

func accountingCase(r *vk.Run, c *vk.Case) {
	rng := c.Rng
	limit := int32(rng.Range(1, 8))
	// A1: sequential reference model: CanProcess <=> running < max
	o := newObs(limit, 0)
	running := 0
	var trace []string
	steps := rng.Range(20, 200)
	for step := 0; step < steps; step++ {
		switch x := rng.Intn(10); {
		case x < 5:
			can := o.CanProcess()
			r.Eval(1)
			if can != (running < int(limit)) {
				r.Violation(c.Idx, "throttler-accounting", fmt.Sprintf("max=%d, %d tasks running: CanProcess()=%v", limit, running, can), map[string]interface{}{"max": limit, "ops": trace})
				return
			}
			if can {
				o.StartProcessing()
				running++
				trace = append(trace, "Start")
			}
		case x < 9:
			if running > 0 {
				o.EndProcessing()
				running--
				trace = append(trace, "End")
			}
		default: // fill up to the brim: exactly max starts are granted
			for o.CanProcess() {
				o.StartProcessing()
				running++
				trace = append(trace, "Start")
				if running > int(limit)+2 {
					break
				}
			}
			r.Eval(1)
			if running != int(limit) {
				r.Violation(c.Idx, "throttler-accounting", fmt.Sprintf("max=%d: filling sequentially granted %d starts", limit, running), map[string]interface{}{"max": limit, "ops": trace})
				return
			}
		}
	}
	for running > 0 {
		o.EndProcessing()
		running--
	}
	// A2: correct concurrent use: check + start under the caller's own lock
	o = newObs(limit, rng.Intn(3))
	workers := rng.Range(2, 32)
	per := rng.Range(50, r.N(300, 1000))
	holdY := rng.Intn(4)
	var mu sync.Mutex
	var wg sync.WaitGroup
	for w := 0; w < workers; w++ {
		wg.Add(1)
		go func() {
			defer wg.Done()
			for i := 0; i < per; i++ {
				mu.Lock()
				ok := o.CanProcess()
				if ok {
					o.StartProcessing()
				}
				mu.Unlock()
				if ok {
					for y := 0; y < holdY; y++ {
						runtime.Gosched()
					}
					o.EndProcessing()
				}
			}
		}()
	}
	wg.Wait()
	r.Eval(int(o.starts))
	r.Count("accounting_admitted", int(o.starts))
	r.Count("accounting_denied", int(o.denied))
	r.Max("accounting_max_inflight_minus_limit", int64(o.max-limit))
	if o.max > limit {
		r.Violation(c.Idx, "throttler-accounting", fmt.Sprintf("max=%d: %d tasks in flight although every caller checks and starts under one lock (%d workers)", limit, o.max, workers),
			map[string]interface{}{"max": limit, "observed": o.max, "workers": workers})
		return
	}
	if atomic.LoadInt32(&o.inflight) != 0 || !o.real.CanProcess() {
		r.Violation(c.Idx, "throttler-accounting", fmt.Sprintf("max=%d: after all tasks ended in-flight=%d CanProcess=%v", limit, o.inflight, o.real.CanProcess()), nil)
		return
	}
	r.Shape(fmt.Sprintf("accounting max=%d workers=%s yield=%d", limit, bucket(workers), o.yields))
}

// ------------------------------------------------------------------------------------------------
// B. sequential sub-check at the real call sites: slots held open, strict

func sequentialCase(r *vk.Run, c *vk.Case, kind int) {
	rng := c.Rng
	limit := int32(rng.Range(1, 8))
	extra := rng.Range(1, 5)
	o := newObs(limit, rng.Intn(2))
	release := make(chan struct{})
	entered := make(chan struct{}, 64)
	hold := func() {
		entered <- struct{}{}
		<-release
	}
	st, err := buildSite(kind, o, hold)
	if err != nil {
		r.Inconclusive("cannot build " + siteNames[kind] + ": " + err.Error())
		return
	}
	for wave := 0; wave < 2; wave++ {
		accepted, busy, other := 0, 0, 0
		total := int(limit) + extra
		var wg sync.WaitGroup
		for i := 0; i < total; i++ {
			done := make(chan error, 1)
			wg.Add(1)
			go func(i int) { // the resolver works inside the call, so every delivery gets its own goroutine
				defer wg.Done()
				done <- st.deliver(wave, i)
			}(i)
			// one delivery at a time: wait until it is either holding a slot or has returned
			select {
			case <-entered:
				accepted++
			case err := <-done:
				if err == nil {
					// interceptors return before the work starts: wait for the worker to take its slot
					<-entered
					accepted++
				} else if st.busy(err) {
					busy++
				} else {
					other++
				}
			}
		}
		r.Eval(total)
		r.Count("sequential_accepted", accepted)
		r.Count("sequential_refused_busy", busy)
		peak := atomic.LoadInt32(&o.max)
		if accepted > int(limit) || peak > limit {
			r.Violation(c.Idx, "site="+st.name+" mode=sequential",
				fmt.Sprintf("%s, max=%d, slots held open, deliveries one at a time: %d admitted, %d in flight (wave %d)", st.name, limit, accepted, peak, wave),
				map[string]interface{}{"site": st.name, "max": limit, "delivered": total, "admitted": accepted, "refused": busy, "in_flight_peak": peak, "wave": wave})
			close(release)
			wg.Wait()
			return
		}
		if other > 0 {
			r.Inconclusive(fmt.Sprintf("%s returned an unexpected error in the sequential sub-check", st.name))
		}
		if accepted < int(limit) {
			r.Count("sequential_under_admission", 1) // not an overshoot: recorded only
		}
		close(release)
		wg.Wait()
		if !waitDrained(o) {
			r.Inconclusive("slots were not returned within the wait bound")
			return
		}
		release = make(chan struct{})
	}
	r.Max("sequential_peak_minus_limit site="+st.name, int64(atomic.LoadInt32(&o.max)-limit))
	r.Shape(fmt.Sprintf("sequential site=%s max=%d extra=%d yield=%d", st.name, limit, extra, o.yields))
	if r.NeedSample() && rng.Chance(1, 6) {
		r.Sample(map[string]interface{}{"mode": "sequential", "site": st.name, "max": limit, "delivered_per_wave": int(limit) + extra, "in_flight_peak": o.max, "refused": o.denied})
	}
}

// ------------------------------------------------------------------------------------------------
// C. concurrent senders at the real call sites

func concurrentCase(r *vk.Run, c *vk.Case, kind int) {
	rng := c.Rng
	limit := int32(rng.Range(1, 8))
	senders := []int{2, 3, 4, 8, 16, 32, 64}[rng.Intn(7)]
	yields := rng.Intn(3)
	holdKind := rng.Intn(3) // 0: a few yields, 1: microseconds, 2: up to a millisecond
	o := newObs(limit, yields)
	hold := func() {
		switch holdKind {
		case 0:
			runtime.Gosched()
			runtime.Gosched()
		case 1:
			time.Sleep(20 * time.Microsecond)
		default:
			time.Sleep(500 * time.Microsecond)
		}
	}
	st, err := buildSite(kind, o, hold)
	if err != nil {
		r.Inconclusive("cannot build " + siteNames[kind] + ": " + err.Error())
		return
	}
	per := r.N(3000, 12000) / senders
	if holdKind == 2 {
		per = per/8 + 1
	}
	var wg sync.WaitGroup
	start := make(chan struct{})
	var accepted, refused, other int64
	for s := 0; s < senders; s++ {
		wg.Add(1)
		go func(s int) {
			defer wg.Done()
			<-start
			for i := 0; i < per; i++ {
				err := st.deliver(s, i)
				switch {
				case err == nil:
					atomic.AddInt64(&accepted, 1)
				case st.busy(err):
					atomic.AddInt64(&refused, 1)
				default:
					atomic.AddInt64(&other, 1)
				}
			}
		}(s)
	}
	close(start)
	wg.Wait()
	if !waitDrained(o) {
		r.Inconclusive("slots were not returned within the wait bound")
		return
	}
	peak := atomic.LoadInt32(&o.max)
	r.Eval(int(o.starts))
	r.Count("concurrent_admitted site="+st.name, int(o.starts))
	r.Count("concurrent_refused site="+st.name, int(refused))
	r.Max("concurrent_peak_minus_limit site="+st.name, int64(peak-limit))
	if other > 0 {
		r.Inconclusive(fmt.Sprintf("%s returned an unexpected error in the concurrent check", st.name))
	}
	if refused == 0 && peak < limit {
		r.Trivial() // the bound was never approached
		return
	}
	r.Shape(fmt.Sprintf("concurrent site=%s max=%d senders=%d hold=%d yield=%d", st.name, limit, senders, holdKind, yields))
	if peak > limit {
		r.Count("concurrent_overshoot_cases site="+st.name, 1)
		r.Violation(c.Idx, "site="+st.name+" mode=concurrent",
			fmt.Sprintf("%s, max=%d: %d tasks in flight with %d concurrent senders (check-then-start is not atomic)", st.name, limit, peak, senders),
			map[string]interface{}{"site": st.name, "max": limit, "in_flight_peak": peak, "senders": senders, "messages_per_sender": per, "admitted": o.starts, "refused": refused, "throttler_yields": yields, "hold": holdKind})
	}
	if r.NeedSample() && rng.Chance(1, 10) {
		r.Sample(map[string]interface{}{"mode": "concurrent", "site": st.name, "max": limit, "senders": senders, "messages_per_sender": per, "in_flight_peak": peak, "admitted": o.starts, "refused": refused})
	}
}

func bucket(n int) string {
	switch {
	case n <= 2:
		return "2"
	case n <= 8:
		return "3-8"
	default:
		return ">8"
	}
}

func main() {
	_ = logger.SetLogLevel("*:NONE")
	r := vk.Start("C43")
	r.Rule("real NumGoRoutinesThrottler (max 1..8) behind an observing decorator (in-flight = starts - ends, peak kept atomically, 0-2 yields between the real CanProcess result and its return). accounting: sequential Start/End/CanProcess model + 2..32 workers that check and start under one lock. sequential sub-check per site (SingleDataInterceptor, MultiDataInterceptor, miniblock resolver): max+1..5 deliveries one at a time while the work blocks, two waves; strict: admitted <= max and peak <= max. concurrent per site: 2..64 sender goroutines (distinct non-preferred peers, never the node itself), work = a few yields / 20us / 500us; a case is non-trivial when the bound was reached (a refusal or peak >= max); shape = (mode, site, max, senders, hold, yield)")
	r.Assume("messages come from non-preferred peers other than the node itself (those callers skip CanProcess by design)", "in-flight is counted after the real StartProcessing and before the real EndProcessing, so it never exceeds the throttler's own counter", "under-admission in the sequential sub-check is recorded, not reported: the property bounds from above", "race reports are evidence only for this property")
	r.MinShapes(30)

	nAcc := r.N(30, 300)
	nSeq := r.N(60, 600) // cases per tier, round-robin over the three sites
	nConc := r.N(90, 600)
	r.ParallelW(nAcc+nSeq+nConc, 4, func(c *vk.Case) {
		switch {
		case c.Idx < nAcc:
			accountingCase(r, c)
		case c.Idx < nAcc+nSeq:
			sequentialCase(r, c, (c.Idx-nAcc)%3)
		default:
			concurrentCase(r, c, (c.Idx-nAcc-nSeq)%3)
		}
	})
	races := vk.CollectRaces()
	for i := range races {
		if len(races[i].First) > 600 {
			races[i].First = races[i].First[:600]
		}
	}
	if len(races) > 10 {
		races = races[:10]
	}
	if races == nil {
		races = []vk.RaceReport{}
	}
	r.Extra("race_reports", races)
	r.Finish()
}
