// C43 — goroutine throttler bounds concurrent work.
// Monitor shape: INV under stress (in-flight = starts - ends observed by a decorator around the REAL
// NumGoRoutinesThrottler, plugged into the real SingleDataInterceptor, MultiDataInterceptor and miniblock
// resolver) + strict sequential sub-check (slots held open: exactly max admissions) + bare-throttler accounting.
package main

import (
	"errors"
	"fmt"
	"runtime"
	"sort"
	"sync"
	"sync/atomic"
	"time"

	logger "github.com/ElrondNetwork/elrond-go-logger"
	"github.com/ElrondNetwork/elrond-go/core"
	"github.com/ElrondNetwork/elrond-go/core/throttler"
	"github.com/ElrondNetwork/elrond-go/data/batch"
	"github.com/ElrondNetwork/elrond-go/data/block"
	"github.com/ElrondNetwork/elrond-go/dataRetriever"
	drmock "github.com/ElrondNetwork/elrond-go/dataRetriever/mock"
	"github.com/ElrondNetwork/elrond-go/dataRetriever/resolvers"
	"github.com/ElrondNetwork/elrond-go/marshal"
	"github.com/ElrondNetwork/elrond-go/p2p"
	"github.com/ElrondNetwork/elrond-go/process"
	"github.com/ElrondNetwork/elrond-go/process/interceptors"
	"github.com/ElrondNetwork/elrond-go/process/mock"
	"github.com/ElrondNetwork/elrond-go/testscommon"
	"github.com/ElrondNetwork/elrond-go/testscommon/p2pmocks"
	"verif/internal/vk"
)

// obs decorates the real throttler: counts in-flight tasks (starts - ends) and remembers the maximum.
// The in-flight counter is raised AFTER the real StartProcessing and lowered BEFORE the real
// EndProcessing, so it never exceeds the real throttler's own counter.
type obs struct {
	real     *throttler.NumGoRoutinesThrottler
	inflight int32
	max      int32
	yields   int // Gosched calls between the real CanProcess result and the return
	starts   int64
	ends     int64
	denied   int64
}

func (o *obs) CanProcess() bool {
	r := o.real.CanProcess()
	for i := 0; i < o.yields; i++ {
		runtime.Gosched()
	}
	if !r {
		atomic.AddInt64(&o.denied, 1)
	}
	return r
}

func (o *obs) StartProcessing() {
	o.real.StartProcessing()
	atomic.AddInt64(&o.starts, 1)
	n := atomic.AddInt32(&o.inflight, 1)
	for {
		m := atomic.LoadInt32(&o.max)
		if n <= m || atomic.CompareAndSwapInt32(&o.max, m, n) {
			break
		}
	}
}

func (o *obs) EndProcessing() {
	atomic.AddInt32(&o.inflight, -1)
	atomic.AddInt64(&o.ends, 1)
	o.real.EndProcessing()
}

func (o *obs) IsInterfaceNil() bool { return o == nil }

func newObs(limit int32, yields int) *obs {
	rt, err := throttler.NewNumGoRoutinesThrottler(limit)
	if err != nil {
		panic(err)
	}
	return &obs{real: rt, yields: yields}
}

// waitDrained waits (bounded) until every admitted task has called EndProcessing
func waitDrained(o *obs) bool {
	for i := 0; i < 200000; i++ {
		if atomic.LoadInt32(&o.inflight) == 0 {
			return true
		}
		if i < 1000 {
			runtime.Gosched()
		} else {
			time.Sleep(50 * time.Microsecond)
		}
	}
	return false
}

// ------------------------------------------------------------------------------------------------
// sites: the real components, with the decorated throttler. Every message carries a tag that tells the
// harness-supplied stubs (data factory, intercepted data, processor, antiflood, pool, storer, sender) what
// to do with it: "ok" = valid work that calls hold(); "free" = valid work that never holds; the other
// tags make the message fail at one particular stage.

var msh = &marshal.GogoProtoMarshalizer{}

var siteNames = []string{"SingleDataInterceptor", "MultiDataInterceptor", "resolver"}

var errInjected = errors.New("injected failure")

const (
	mePeer         = core.PeerID("me")
	preferredPeer  = core.PeerID("preferred-peer")
	flooderPeer    = core.PeerID("flooder")
	topicFlooder   = core.PeerID("topic-flooder")
	batchFlooder   = core.PeerID("batch-flooder")
	ineligiblePeer = core.PeerID("ineligible-originator")
)

type site struct {
	name string
	busy func(err error) bool
	// deliver sends one valid message of a regular peer (it asks the throttler); tag "ok" or "free"
	deliver func(tag string, sender, i int) error
	// fail sends one message that fails at the stage named by kind; async tells that a worker goroutine finishes it
	fail      func(kind string, i int, rng *vk.Rand) (err error, async bool)
	failKinds []string
	// preferred sends one valid "free" message from a preferred peer (self=false) or from the node to itself
	preferred func(i int, self bool) error
	saved     *int64 // completed Save calls (interceptors)
}

func tagOf(b []byte) string {
	for i, c := range b {
		if c == '|' {
			return string(b[:i])
		}
	}
	return string(b)
}

func payload(tag string, a, b int) []byte { return []byte(fmt.Sprintf("%s|%d-%d", tag, a, b)) }

func dataFactory() *mock.InterceptedDataFactoryStub {
	return &mock.InterceptedDataFactoryStub{CreateCalled: func(buff []byte) (process.InterceptedData, error) {
		h := append([]byte{}, buff...)
		tag := tagOf(h)
		if tag == "fac" {
			return nil, errInjected
		}
		return &testscommon.InterceptedDataStub{
			CheckValidityCalled: func() error {
				switch tag {
				case "val":
					return errInjected
				case "ver":
					return process.ErrInvalidTransactionVersion
				case "chn":
					return process.ErrInvalidChainID
				}
				return nil
			},
			IsForCurrentShardCalled: func() bool { return tag != "shard" },
			HashCalled:              func() []byte { return h },
		}, nil
	}}
}

func interceptorAntiflood() *mock.P2PAntifloodHandlerStub {
	return &mock.P2PAntifloodHandlerStub{
		CanProcessMessageCalled: func(_ p2p.MessageP2P, from core.PeerID) error {
			if from == flooderPeer {
				return errInjected
			}
			return nil
		},
		CanProcessMessagesOnTopicCalled: func(peer core.PeerID, _ string, n uint32, _ uint64, _ []byte) error {
			if peer == topicFlooder || (peer == batchFlooder && n > 1) {
				return errInjected
			}
			return nil
		},
		IsOriginatorEligibleForTopicCalled: func(pid core.PeerID, _ string) error {
			if pid == ineligiblePeer {
				return errInjected
			}
			return nil
		},
	}
}

func interceptorProcessor(hold func(), saved *int64) *mock.InterceptorProcessorStub {
	return &mock.InterceptorProcessorStub{
		ValidateCalled: func(d process.InterceptedData) error {
			switch tagOf(d.Hash()) {
			case "ok":
				hold()
			case "pval":
				return errInjected
			}
			return nil
		},
		SaveCalled: func(d process.InterceptedData) error {
			atomic.AddInt64(saved, 1)
			if tagOf(d.Hash()) == "psave" {
				return errInjected
			}
			return nil
		},
	}
}

func peerOf(sender int) core.PeerID { return core.PeerID(fmt.Sprintf("peer-%d", sender)) }

func p2pMsg(data []byte, originator core.PeerID) *mock.P2PMessageMock {
	return &mock.P2PMessageMock{DataField: data, PeerField: originator, FromField: []byte(originator), TopicField: "t"}
}

var dataTags = []string{"fac", "val", "ver", "chn", "shard", "pval", "psave"}

func buildSite(kind int, thr *obs, hold func()) (*site, error) {
	saved := new(int64)
	holder := &p2pmocks.PeersHolderStub{ContainsCalled: func(p core.PeerID) bool { return p == preferredPeer }}
	isBusy := func(err error) bool { return errors.Is(err, process.ErrSystemBusy) }
	switch kind {
	case 0:
		sdi, err := interceptors.NewSingleDataInterceptor(interceptors.ArgSingleDataInterceptor{
			Topic: "t", Throttler: thr, AntifloodHandler: interceptorAntiflood(), WhiteListRequest: &testscommon.WhiteListHandlerStub{},
			PreferredPeersHolder: holder, CurrentPeerId: mePeer, DataFactory: dataFactory(), Processor: interceptorProcessor(hold, saved),
		})
		if err != nil {
			return nil, err
		}
		st := &site{name: siteNames[0], busy: isBusy, saved: saved}
		st.deliver = func(tag string, sender, i int) error {
			p := peerOf(sender)
			return sdi.ProcessReceivedMessage(p2pMsg(payload(tag, sender, i), p), p)
		}
		st.failKinds = append([]string{"nildata", "flood", "topicflood", "originator"}, dataTags...)
		st.fail = func(k string, i int, _ *vk.Rand) (error, bool) {
			p := peerOf(900)
			switch k {
			case "nildata":
				return sdi.ProcessReceivedMessage(p2pMsg(nil, p), p), false
			case "flood":
				return sdi.ProcessReceivedMessage(p2pMsg(payload("free", 0, i), flooderPeer), flooderPeer), false
			case "topicflood":
				return sdi.ProcessReceivedMessage(p2pMsg(payload("free", 0, i), topicFlooder), topicFlooder), false
			case "originator":
				return sdi.ProcessReceivedMessage(p2pMsg(payload("free", 0, i), ineligiblePeer), p), false
			}
			return sdi.ProcessReceivedMessage(p2pMsg(payload(k, 0, i), p), p), k == "pval" || k == "psave"
		}
		st.preferred = func(i int, self bool) error {
			if self {
				m := p2pMsg(payload("free", 1, i), mePeer)
				m.SignatureField = []byte(mePeer)
				return sdi.ProcessReceivedMessage(m, mePeer)
			}
			return sdi.ProcessReceivedMessage(p2pMsg(payload("free", 2, i), preferredPeer), preferredPeer)
		}
		return st, nil
	case 1:
		mdi, err := interceptors.NewMultiDataInterceptor(interceptors.ArgMultiDataInterceptor{
			Topic: "t", Marshalizer: msh, Throttler: thr, AntifloodHandler: interceptorAntiflood(), WhiteListRequest: &testscommon.WhiteListHandlerStub{},
			PreferredPeersHolder: holder, CurrentPeerId: mePeer, DataFactory: dataFactory(), Processor: interceptorProcessor(hold, saved),
		})
		if err != nil {
			return nil, err
		}
		pack := func(elems ...[]byte) []byte {
			buff, _ := msh.Marshal(&batch.Batch{Data: elems})
			return buff
		}
		st := &site{name: siteNames[1], busy: isBusy, saved: saved}
		st.deliver = func(tag string, sender, i int) error {
			p := peerOf(sender)
			return mdi.ProcessReceivedMessage(p2pMsg(pack(payload(tag, sender, i)), p), p)
		}
		st.failKinds = append([]string{"nildata", "flood", "topicflood", "batchflood", "originator", "garbage", "emptybatch"}, dataTags...)
		st.fail = func(k string, i int, rng *vk.Rand) (error, bool) {
			p := peerOf(900)
			switch k {
			case "nildata":
				return mdi.ProcessReceivedMessage(p2pMsg(nil, p), p), false
			case "flood":
				return mdi.ProcessReceivedMessage(p2pMsg(pack(payload("free", 0, i)), flooderPeer), flooderPeer), false
			case "topicflood":
				return mdi.ProcessReceivedMessage(p2pMsg(pack(payload("free", 0, i)), topicFlooder), topicFlooder), false
			case "batchflood": // refused by the per-batch antiflood question, after the slot was taken
				return mdi.ProcessReceivedMessage(p2pMsg(pack(payload("free", 0, i), payload("free", 1, i)), batchFlooder), batchFlooder), false
			case "originator":
				return mdi.ProcessReceivedMessage(p2pMsg(pack(payload("free", 0, i)), ineligiblePeer), p), false
			case "garbage":
				return mdi.ProcessReceivedMessage(p2pMsg([]byte{0xff, 0xff, 0xff, 0xff, 0x07, byte(i)}, p), p), false
			case "emptybatch":
				return mdi.ProcessReceivedMessage(p2pMsg(pack(), p), p), false
			}
			// a batch of 1..4 elements with exactly one bad element at a random position
			n := rng.Range(1, 4)
			bad := rng.Intn(n)
			var elems [][]byte
			for j := 0; j < n; j++ {
				if j == bad {
					elems = append(elems, payload(k, j, i))
				} else {
					elems = append(elems, payload("free", j, i))
				}
			}
			return mdi.ProcessReceivedMessage(p2pMsg(pack(elems...), p), p), k == "pval" || k == "psave"
		}
		st.preferred = func(i int, self bool) error {
			if self {
				m := p2pMsg(pack(payload("free", 1, i)), mePeer)
				m.SignatureField = []byte(mePeer)
				return mdi.ProcessReceivedMessage(m, mePeer)
			}
			return mdi.ProcessReceivedMessage(p2pMsg(pack(payload("free", 2, i)), preferredPeer), preferredPeer)
		}
		return st, nil
	default:
		res, err := resolvers.NewMiniblockResolver(resolvers.ArgMiniblockResolver{
			SenderResolver: &drmock.TopicResolverSenderStub{SendCalled: func(buff []byte, _ core.PeerID) error {
				b := batch.Batch{}
				if msh.Unmarshal(&b, buff) == nil && len(b.Data) > 0 {
					mb := block.MiniBlock{}
					if msh.Unmarshal(&mb, b.Data[0]) == nil && len(mb.TxHashes) > 0 {
						switch tagOf(mb.TxHashes[0]) {
						case "ok":
							hold()
						case "send":
							return errInjected
						}
					}
				}
				return nil
			}},
			MiniBlockPool: &testscommon.CacherStub{PeekCalled: func(key []byte) (interface{}, bool) {
				if tagOf(key) == "miss" {
					return nil, false
				}
				return &block.MiniBlock{TxHashes: [][]byte{append([]byte{}, key...)}}, true
			}},
			MiniBlockStorage: &testscommon.StorerStub{SearchFirstCalled: func([]byte) ([]byte, error) { return nil, errInjected }},
			Marshalizer:      msh,
			AntifloodHandler: &drmock.P2PAntifloodHandlerStub{
				CanProcessMessageCalled: func(_ p2p.MessageP2P, from core.PeerID) error {
					if from == flooderPeer {
						return errInjected
					}
					return nil
				},
				CanProcessMessagesOnTopicCalled: func(peer core.PeerID, _ string, _ uint32, _ uint64, _ []byte) error {
					if peer == topicFlooder {
						return errInjected
					}
					return nil
				},
			},
			Throttler: thr, DataPacker: &drmock.DataPackerStub{},
		})
		if err != nil {
			return nil, err
		}
		var _ p2p.MessageProcessor = res
		request := func(rd *dataRetriever.RequestData, p core.PeerID) error {
			buff, _ := msh.Marshal(rd)
			return res.ProcessReceivedMessage(&drmock.P2PMessageMock{DataField: buff, PeerField: p, FromField: []byte(p), TopicField: "t"}, p)
		}
		st := &site{name: siteNames[2], busy: func(err error) bool { return errors.Is(err, dataRetriever.ErrSystemBusy) }, saved: saved}
		st.deliver = func(tag string, sender, i int) error {
			return request(&dataRetriever.RequestData{Type: dataRetriever.HashType, Value: payload(tag, sender, i)}, peerOf(sender))
		}
		st.failKinds = []string{"nilmessage", "flood", "topicflood", "garbage", "nilvalue", "type", "miss", "send", "badarray", "arraymiss"}
		st.fail = func(k string, i int, _ *vk.Rand) (error, bool) {
			p := peerOf(900)
			switch k {
			case "nilmessage":
				return res.ProcessReceivedMessage(nil, p), false
			case "flood":
				return request(&dataRetriever.RequestData{Type: dataRetriever.HashType, Value: payload("free", 0, i)}, flooderPeer), false
			case "topicflood":
				return request(&dataRetriever.RequestData{Type: dataRetriever.HashType, Value: payload("free", 0, i)}, topicFlooder), false
			case "garbage":
				return res.ProcessReceivedMessage(&drmock.P2PMessageMock{DataField: []byte{0xff, 0xff, 0xff, 0xff, 0x07, byte(i)}, PeerField: p, FromField: []byte(p), TopicField: "t"}, p), false
			case "nilvalue":
				return request(&dataRetriever.RequestData{Type: dataRetriever.HashType}, p), false
			case "type":
				return request(&dataRetriever.RequestData{Type: dataRetriever.NonceType, Value: payload("free", 0, i)}, p), false
			case "miss":
				return request(&dataRetriever.RequestData{Type: dataRetriever.HashType, Value: payload("miss", 0, i)}, p), false
			case "send":
				return request(&dataRetriever.RequestData{Type: dataRetriever.HashType, Value: payload("send", 0, i)}, p), false
			case "badarray":
				return request(&dataRetriever.RequestData{Type: dataRetriever.HashArrayType, Value: []byte{0xff, 0xff, 0xff, 0xff, 0x07}}, p), false
			default: // arraymiss: one of the requested hashes is unknown
				v, _ := msh.Marshal(&batch.Batch{Data: [][]byte{payload("free", 0, i), payload("miss", 1, i)}})
				return request(&dataRetriever.RequestData{Type: dataRetriever.HashArrayType, Value: v}, p), false
			}
		}
		return st, nil
	}
}

// settle waits (bounded) until every start has its end; ends may never exceed starts
func settle(o *obs) (starts, ends int64, ok bool) {
	for i := 0; i < 400000; i++ {
		ends = atomic.LoadInt64(&o.ends)
		starts = atomic.LoadInt64(&o.starts)
		if ends > starts {
			return starts, ends, false
		}
		if ends == starts {
			return starts, ends, true
		}
		if i < 2000 {
			runtime.Gosched()
		} else {
			time.Sleep(50 * time.Microsecond)
		}
	}
	return starts, ends, false
}

// ------------------------------------------------------------------------------------------------
// A. bare throttler: sequential accounting model + a caller that checks and starts atomically

func accountingCase(r *vk.Run, c *vk.Case) {
	rng := c.Rng
	limit := int32(rng.Range(1, 8))
	// A1: sequential reference model: CanProcess <=> running < max
	o := newObs(limit, 0)
	running := 0
	var trace []string
	steps := rng.Range(20, 200)
	for step := 0; step < steps; step++ {
		switch x := rng.Intn(10); {
		case x < 5:
			can := o.CanProcess()
			r.Eval(1)
			if can != (running < int(limit)) {
				r.Violation(c.Idx, "throttler-accounting", fmt.Sprintf("max=%d, %d tasks running: CanProcess()=%v", limit, running, can), map[string]interface{}{"max": limit, "ops": trace})
				return
			}
			if can {
				o.StartProcessing()
				running++
				trace = append(trace, "Start")
			}
		case x < 8:
			if running > 0 {
				o.EndProcessing()
				running--
				trace = append(trace, "End")
			}
		case x < 9: // a caller that is allowed to skip the question (preferred peer): takes a slot, works, returns it
			o.StartProcessing()
			running++
			trace = append(trace, "Start(unasked)")
			if rng.Chance(1, 2) {
				o.EndProcessing()
				running--
				trace = append(trace, "End")
			}
		default: // fill up to the brim: exactly max starts are granted
			before := running
			for o.CanProcess() {
				o.StartProcessing()
				running++
				trace = append(trace, "Start")
				if running > int(limit)+2 {
					break
				}
			}
			r.Eval(1)
			if running < int(limit) || (running > int(limit) && running != before) {
				r.Violation(c.Idx, "throttler-accounting", fmt.Sprintf("max=%d: filling sequentially granted starts up to %d running", limit, running), map[string]interface{}{"max": limit, "ops": trace})
				return
			}
		}
	}
	for running > 0 {
		o.EndProcessing()
		running--
	}
	// A2: correct concurrent use: check + start under the caller's own lock
	o = newObs(limit, rng.Intn(3))
	workers := rng.Range(2, 32)
	per := rng.Range(50, r.N(300, 1000))
	holdY := rng.Intn(4)
	var mu sync.Mutex
	var wg sync.WaitGroup
	for w := 0; w < workers; w++ {
		wg.Add(1)
		go func() {
			defer wg.Done()
			for i := 0; i < per; i++ {
				mu.Lock()
				ok := o.CanProcess()
				if ok {
					o.StartProcessing()
				}
				mu.Unlock()
				if ok {
					for y := 0; y < holdY; y++ {
						runtime.Gosched()
					}
					o.EndProcessing()
				}
			}
		}()
	}
	wg.Wait()
	r.Eval(int(o.starts))
	r.Count("accounting_admitted", int(o.starts))
	r.Count("accounting_denied", int(o.denied))
	r.Max("accounting_max_inflight_minus_limit", int64(o.max-limit))
	if o.max > limit {
		r.Violation(c.Idx, "throttler-accounting", fmt.Sprintf("max=%d: %d tasks in flight although every caller checks and starts under one lock (%d workers)", limit, o.max, workers),
			map[string]interface{}{"max": limit, "observed": o.max, "workers": workers})
		return
	}
	if atomic.LoadInt32(&o.inflight) != 0 || !o.real.CanProcess() {
		r.Violation(c.Idx, "throttler-accounting", fmt.Sprintf("max=%d: after all tasks ended in-flight=%d CanProcess=%v", limit, o.inflight, o.real.CanProcess()), nil)
		return
	}
	r.Shape(fmt.Sprintf("accounting max=%d workers=%s yield=%d", limit, bucket(workers), o.yields))
}

// ------------------------------------------------------------------------------------------------
// B. sequential checks at the real call sites (one delivery at a time):
//    B1 error-path accounting: messages failing at every stage, starts == ends after each completed message;
//    B2 strict sub-check: slots held open, exactly max admissions;
//    B3 preferred-peer interplay (interceptors): max asked tasks held open, preferred/self messages run
//       start to end, further asked messages must all be refused.

type seqRun struct {
	r       *vk.Run
	c       *vk.Case
	st      *site
	o       *obs
	limit   int32
	mu      sync.Mutex
	release chan struct{}
	entered chan struct{}
	wg      sync.WaitGroup
	fails   map[string]int
	order   []string
	// imbalanced: a start/end imbalance was already reported for this case; later balance checks are skipped
	imbalanced bool
}

func (q *seqRun) detail(extra map[string]interface{}) map[string]interface{} {
	d := map[string]interface{}{"site": q.st.name, "max": q.limit, "failure_kinds_before": q.fails, "failure_order": q.order,
		"starts": atomic.LoadInt64(&q.o.starts), "ends": atomic.LoadInt64(&q.o.ends)}
	for k, v := range extra {
		d[k] = v
	}
	return d
}

// deliverHeld delivers one asked "ok" message whose work blocks until release; reports whether it was admitted
func (q *seqRun) deliverHeld(sender, i int) (admitted, busy bool) {
	done := make(chan error, 1)
	q.wg.Add(1)
	go func() { // the resolver works inside the call, so every delivery gets its own goroutine
		defer q.wg.Done()
		done <- q.st.deliver("ok", sender, i)
	}()
	// one delivery at a time: wait until it is either holding a slot or has returned
	select {
	case <-q.entered:
		return true, false
	case err := <-done:
		if err == nil {
			<-q.entered // interceptors return before the work starts: wait for the worker to take its slot
			return true, false
		}
		return false, q.st.busy(err)
	}
}

func (q *seqRun) releaseAll() bool {
	q.mu.Lock()
	close(q.release)
	q.release = make(chan struct{})
	q.mu.Unlock()
	q.wg.Wait()
	if q.imbalanced {
		return true
	}
	_, _, ok := settle(q.o)
	return ok
}

// balance asserts starts == ends once the message just delivered is completed
func (q *seqRun) balance(after string) bool {
	if q.imbalanced {
		return true
	}
	starts, ends, ok := settle(q.o)
	q.r.Eval(1)
	if ok {
		return true
	}
	what := "an EndProcessing is missing (slot leaked)"
	if ends > starts {
		what = "EndProcessing was called more often than StartProcessing (the throttler's counter drops below the number of running tasks)"
	}
	q.r.Violation(q.c.Idx, "site="+q.st.name+" start-end-imbalance",
		fmt.Sprintf("%s, max=%d: after the completed message [%s]: %d starts, %d ends: %s", q.st.name, q.limit, after, starts, ends, what),
		q.detail(map[string]interface{}{"after": after}))
	q.imbalanced = true
	return false
}

func sequentialCase(r *vk.Run, c *vk.Case, kind int) {
	rng := c.Rng
	limit := int32(rng.Range(1, 8))
	extra := rng.Range(1, 5)
	o := newObs(limit, rng.Intn(2))
	q := &seqRun{r: r, c: c, o: o, limit: limit, release: make(chan struct{}), entered: make(chan struct{}, 64), fails: map[string]int{}}
	hold := func() {
		q.mu.Lock()
		rel := q.release // the channel of the current wave, taken before the slot is announced
		q.mu.Unlock()
		q.entered <- struct{}{}
		<-rel
	}
	st, err := buildSite(kind, o, hold)
	if err != nil {
		r.Inconclusive("cannot build " + siteNames[kind] + ": " + err.Error())
		return
	}
	q.st = st

	// B1: error paths (and some valid, completed messages in between); most histories contain each kind at
	// least once, some repeat one kind many times (a miscounted path adds up)
	nFail := rng.Range(0, 3*len(st.failKinds))
	var plan []string
	if nFail > 0 {
		for _, j := range rng.Perm(len(st.failKinds)) {
			if len(plan) < nFail {
				plan = append(plan, st.failKinds[j])
			}
		}
		for len(plan) < nFail {
			plan = append(plan, st.failKinds[rng.Intn(len(st.failKinds))])
		}
		if rng.Chance(1, 3) {
			k := st.failKinds[rng.Intn(len(st.failKinds))]
			for j := rng.Range(2, int(limit)+3); j > 0; j-- {
				plan = append(plan, k)
			}
		}
		shuffled := make([]string, len(plan))
		for i, j := range rng.Perm(len(plan)) {
			shuffled[i] = plan[j]
		}
		plan = shuffled
	}
	for i, k := range plan {
		if rng.Chance(1, 5) {
			err := st.deliver("free", 800, i)
			r.Count("errorpath_valid_completed", 1)
			if err != nil && !st.busy(err) {
				r.Inconclusive(fmt.Sprintf("%s refused a valid message in the error-path phase: %v", st.name, err))
			}
			q.balance("valid message")
		}
		err, _ := st.fail(k, i, rng)
		q.fails[k]++
		q.order = append(q.order, k)
		r.Count("errorpath site="+st.name+" kind="+k, 1)
		if err != nil {
			r.Count("errorpath_returned_error", 1)
		}
		q.balance("failing message kind=" + k)
	}
	if peak := atomic.LoadInt32(&o.max); peak > limit { // nothing is held in B1
		r.Violation(c.Idx, "site="+st.name+" mode=sequential", fmt.Sprintf("%s, max=%d: %d in flight during sequential completed deliveries", st.name, limit, peak), q.detail(nil))
		return
	}

	// B2: strict sub-check, two waves
	for wave := 0; wave < 2; wave++ {
		accepted, busy, other := 0, 0, 0
		total := int(limit) + extra
		for i := 0; i < total; i++ {
			adm, b := q.deliverHeld(wave, i)
			switch {
			case adm:
				accepted++
			case b:
				busy++
			default:
				other++
			}
		}
		r.Eval(total)
		r.Count("sequential_accepted", accepted)
		r.Count("sequential_refused_busy", busy)
		peak := atomic.LoadInt32(&o.max)
		if accepted > int(limit) || peak > limit {
			r.Violation(c.Idx, "site="+st.name+" mode=sequential",
				fmt.Sprintf("%s, max=%d, slots held open, deliveries one at a time: %d admitted and running, decorator peak %d (wave %d; %d failing messages of kinds %v before)", st.name, limit, accepted, peak, wave, len(q.order), kindsOf(q.fails)),
				q.detail(map[string]interface{}{"delivered": total, "admitted": accepted, "refused": busy, "in_flight_peak": peak, "wave": wave}))
			q.releaseAll()
			return
		}
		if other > 0 {
			r.Inconclusive(fmt.Sprintf("%s returned an unexpected error in the sequential sub-check", st.name))
		}
		if accepted < int(limit) {
			r.Count("sequential_under_admission", 1) // not an overshoot: recorded only
		}
		if !q.releaseAll() {
			q.balance("release of the held tasks")
			return
		}
	}

	peakAsked := atomic.LoadInt32(&o.max) // B3's preferred tasks legitimately take slots beyond max
	// B3: preferred-peer / self messages do not ask, but take and return a slot
	prefRuns := 0
	if st.preferred != nil {
		held := 0
		for i := 0; i < int(limit); i++ {
			if adm, _ := q.deliverHeld(10, i); adm {
				held++
			}
		}
		if held == int(limit) {
			k := rng.Range(1, 4)
			var kinds []string
			for i := 0; i < k; i++ {
				self := rng.Chance(1, 3)
				endsBefore := atomic.LoadInt64(&o.ends)
				err := st.preferred(i, self)
				kinds = append(kinds, map[bool]string{false: "preferred", true: "self"}[self])
				if err != nil {
					r.Inconclusive(fmt.Sprintf("%s refused a preferred/self message: %v", st.name, err))
					break
				}
				prefRuns++
				for w := 0; w < 400000 && atomic.LoadInt64(&o.ends) == endsBefore; w++ { // its worker ends asynchronously
					if w < 2000 {
						runtime.Gosched()
					} else {
						time.Sleep(50 * time.Microsecond)
					}
				}
				if atomic.LoadInt64(&o.ends) == endsBefore {
					r.Inconclusive("a preferred-peer message did not complete within the wait bound")
					break
				}
				// the max asked tasks are still running: every further asked message must be refused
				for j := 0; j < rng.Range(1, 3); j++ {
					adm, _ := q.deliverHeld(11, i*10+j)
					r.Eval(1)
					if adm {
						r.Violation(c.Idx, "site="+st.name+" mode=sequential-with-preferred",
							fmt.Sprintf("%s, max=%d: %d asked tasks are held open, %d preferred/self message(s) %v ran start to end, then a further message of a regular peer was admitted: %d asked tasks running", st.name, limit, limit, i+1, kinds, int(limit)+1),
							q.detail(map[string]interface{}{"held": held, "preferred_messages": kinds}))
						q.releaseAll()
						return
					}
				}
			}
			r.Count("preferred_interplay_runs site="+st.name, 1)
			r.Count("preferred_messages_completed", prefRuns)
		}
		if !q.releaseAll() {
			q.balance("release after the preferred-peer phase")
			return
		}
	}
	if !q.balance("end of the sequential case") {
		return
	}
	r.Max("sequential_peak_minus_limit site="+st.name, int64(peakAsked-limit))
	r.Shape(fmt.Sprintf("sequential site=%s max=%d extra=%d yield=%d fails=%s pref=%d", st.name, limit, extra, o.yields, bucket(len(q.order)), prefRuns))
	if r.NeedSample() && rng.Chance(1, 6) {
		r.Sample(map[string]interface{}{"mode": "sequential", "site": st.name, "max": limit, "delivered_per_wave": int(limit) + extra, "in_flight_peak": peakAsked, "refused": o.denied, "failing_messages_before": q.order, "preferred_messages": prefRuns})
	}
}

func kindsOf(m map[string]int) []string {
	var out []string
	for k := range m {
		out = append(out, k)
	}
	sort.Strings(out)
	return out
}

// ------------------------------------------------------------------------------------------------
// C. concurrent senders at the real call sites

func concurrentCase(r *vk.Run, c *vk.Case, kind int) {
	rng := c.Rng
	limit := int32(rng.Range(1, 8))
	senders := []int{2, 3, 4, 8, 16, 32, 64}[rng.Intn(7)]
	yields := rng.Intn(3)
	holdKind := rng.Intn(3) // 0: a few yields, 1: microseconds, 2: up to a millisecond
	o := newObs(limit, yields)
	hold := func() {
		switch holdKind {
		case 0:
			runtime.Gosched()
			runtime.Gosched()
		case 1:
			time.Sleep(20 * time.Microsecond)
		default:
			time.Sleep(500 * time.Microsecond)
		}
	}
	st, err := buildSite(kind, o, hold)
	if err != nil {
		r.Inconclusive("cannot build " + siteNames[kind] + ": " + err.Error())
		return
	}
	per := r.N(3000, 12000) / senders
	if holdKind == 2 {
		per = per/8 + 1
	}
	var wg sync.WaitGroup
	start := make(chan struct{})
	var accepted, refused, other int64
	for s := 0; s < senders; s++ {
		wg.Add(1)
		go func(s int) {
			defer wg.Done()
			<-start
			for i := 0; i < per; i++ {
				err := st.deliver("ok", s, i)
				switch {
				case err == nil:
					atomic.AddInt64(&accepted, 1)
				case st.busy(err):
					atomic.AddInt64(&refused, 1)
				default:
					atomic.AddInt64(&other, 1)
				}
			}
		}(s)
	}
	close(start)
	wg.Wait()
	if !waitDrained(o) {
		r.Inconclusive("slots were not returned within the wait bound")
		return
	}
	peak := atomic.LoadInt32(&o.max)
	r.Eval(int(o.starts))
	r.Count("concurrent_admitted site="+st.name, int(o.starts))
	r.Count("concurrent_refused site="+st.name, int(refused))
	r.Max("concurrent_peak_minus_limit site="+st.name, int64(peak-limit))
	if other > 0 {
		r.Inconclusive(fmt.Sprintf("%s returned an unexpected error in the concurrent check", st.name))
	}
	if refused == 0 && peak < limit {
		r.Trivial() // the bound was never approached
		return
	}
	r.Shape(fmt.Sprintf("concurrent site=%s max=%d senders=%d hold=%d yield=%d", st.name, limit, senders, holdKind, yields))
	if peak > limit {
		r.Count("concurrent_overshoot_cases site="+st.name, 1)
		r.Violation(c.Idx, "site="+st.name+" mode=concurrent",
			fmt.Sprintf("%s, max=%d: %d tasks in flight with %d concurrent senders (check-then-start is not atomic)", st.name, limit, peak, senders),
			map[string]interface{}{"site": st.name, "max": limit, "in_flight_peak": peak, "senders": senders, "messages_per_sender": per, "admitted": o.starts, "refused": refused, "throttler_yields": yields, "hold": holdKind})
	}
	if r.NeedSample() && rng.Chance(1, 10) {
		r.Sample(map[string]interface{}{"mode": "concurrent", "site": st.name, "max": limit, "senders": senders, "messages_per_sender": per, "in_flight_peak": peak, "admitted": o.starts, "refused": refused})
	}
}

func bucket(n int) string {
	switch {
	case n <= 2:
		return "2"
	case n <= 8:
		return "3-8"
	default:
		return ">8"
	}
}

func main() {
	_ = logger.SetLogLevel("*:NONE")
	r := vk.Start("C43")
	r.Rule("real NumGoRoutinesThrottler (max 1..8) behind an observing decorator (in-flight = starts - ends, peak kept atomically, 0-2 yields between the real CanProcess result and its return). accounting: sequential Start/End/CanProcess model + 2..32 workers that check and start under one lock. sequential sub-check per site (SingleDataInterceptor, MultiDataInterceptor, miniblock resolver): max+1..5 deliveries one at a time while the work blocks, two waves; strict: admitted <= max and peak <= max. concurrent per site: 2..64 sender goroutines (distinct non-preferred peers, never the node itself), work = a few yields / 20us / 500us; a case is non-trivial when the bound was reached (a refusal or peak >= max); shape = (mode, site, max, senders, hold, yield)")
	r.Assume("messages come from non-preferred peers other than the node itself (those callers skip CanProcess by design)", "in-flight is counted after the real StartProcessing and before the real EndProcessing, so it never exceeds the throttler's own counter", "under-admission in the sequential sub-check is recorded, not reported: the property bounds from above", "race reports are evidence only for this property")
	r.MinShapes(30)

	nAcc := r.N(30, 300)
	nSeq := r.N(120, 900) // cases per tier, round-robin over the three sites
	nConc := r.N(90, 600)
	r.ParallelW(nAcc+nSeq+nConc, 4, func(c *vk.Case) {
		switch {
		case c.Idx < nAcc:
			accountingCase(r, c)
		case c.Idx < nAcc+nSeq:
			sequentialCase(r, c, (c.Idx-nAcc)%3)
		default:
			concurrentCase(r, c, (c.Idx-nAcc-nSeq)%3)
		}
	})
	races := vk.CollectRaces()
	for i := range races {
		if len(races[i].First) > 600 {
			races[i].First = races[i].First[:600]
		}
	}
	if len(races) > 10 {
		races = races[:10]
	}
	if races == nil {
		races = []vk.RaceReport{}
	}
	r.Extra("race_reports", races)
	r.Finish()
}
