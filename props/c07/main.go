// C07 — contract code is stored once per code hash and reference-counted: a code entry exists in the
// accounts state exactly when at least one account refers to that hash, and its NumReferences equals
// the number of such accounts, after any sequence of deploys, code changes, removals, commits, reverts.
// Monitor shape: invariant walker + reference model. Real AccountsDB and model receive the same
// code-heavy history. At EVERY step: GetCode(h) != nil <=> #accounts referring to h > 0 (and the
// bytes are the blob). At every Commit (and a forced final commit): the main-trie leaf under h, read
// through GetTrie(root).Get(h) and decoded as state.CodeEntry, has NumReferences == #referring
// accounts and Code == blob, there is no leaf when nobody refers to h, and the number of leaves of the
// committed main trie is #accounts + #referenced hashes (no orphan entries).
// The set of referring accounts is read from the REAL accounts (GetExistingAccount(...).GetCodeHash());
// the model count is cross-checked and a disagreement is only counted in the evidence (it would be a C06 matter).
package main

import (
	"bytes"
	"fmt"
	"math/big"
	"strings"

	logger "github.com/ElrondNetwork/elrond-go-logger"
	"github.com/ElrondNetwork/elrond-go/data/state"

	"verif/internal/acctmodel"
	"verif/internal/vk"
)

func main() {
	logger.SetLogLevel("*:NONE")
	r := vk.Start("C07")
	r.Rule("each case = one history of 15-60 steps over 3-8 addresses and 2-4 code blobs (so blobs are shared): ops (SetCode new/shared/changed/same/cleared together with other field and storage changes, RemoveAccount, re-create), " +
		"JournalLen snapshots and RevertToSnapshot (nested, repeated, to 0), Commit (12% of steps + forced final commit); failed operations are followed by RevertToSnapshot(pre-op length). " +
		"Non-trivial: some code hash reached >= 2 references or an entry went back to 0 references; shape = sequence of code events (kind, reference counts before/after).")
	r.Assume("accounts exist only at the addresses of the case's universe (the harness creates all accounts), so the referring accounts can be enumerated through GetExistingAccount",
		"exact NumReferences is observable through exported API only at committed roots (GetTrie(root).Get(hash)); between commits only existence (GetCode) is checked",
		"an operation that returns an error is followed by RevertToSnapshot(pre-op JournalLen)")
	r.MinShapes(r.N(40, 200))

	nCases := r.N(1500, 40000)
	// re-save cases (case index >= nCases; the first nCases cases keep their generator): handle mode in
	// which a kept handle on which SetCode has been called is also saved again WITHOUT a new SetCode call
	// (the caller only bumps the nonce), after its earlier save was reverted, overwritten through another
	// handle, committed, or the account was removed meanwhile
	nResave := r.N(600, 15000)
	r.Parallel(nCases+nResave, func(c *vk.Case) {
		rng := c.Rng
		opt := acctmodel.Options{MaxTrieLevelInMemory: uint([]int{1, 2, 5}[rng.Intn(3)])}
		if rng.Chance(1, 4) {
			opt.Pruning = true
			opt.EWLCacheSize = uint(rng.Range(1, 3))
		}
		env, err := acctmodel.NewEnv(opt)
		if err != nil {
			r.Inconclusive("environment: " + err.Error())
			return
		}
		defer env.Close()
		u := acctmodel.NewUniverse(rng, rng.Range(3, 8), rng.Range(2, 4), 3)
		w := acctmodel.NewWorld(env, u)
		wt := acctmodel.CodeHeavyWeights()
		// handle mode (a quarter of the cases): account handles are kept across other operations, reverts and
		// commits and are saved later with a new code, i.e. through a handle whose own fields are stale
		// with respect to the trie (two handles of one account saved in turn, a handle saved again after
		// its first save was reverted, a handle of an account that was removed meanwhile). No storage is
		// used in these cases, so a stale handle never carries a stale data trie.
		resaveMode := c.Idx >= nCases
		handleMode := c.Idx%4 == 3 || resaveMode
		if handleMode {
			wt.Storage = 0
			r.Count("handle_mode_cases", 1)
		}
		if resaveMode {
			r.Count("resave_mode_cases", 1)
		}
		type pooled struct {
			addr    []byte
			h       state.UserAccountHandler
			codeSet bool // SetCode has been called on this handle (it carries its own code from then on)
		}
		var pool []pooled
		hashes := make([][]byte, len(u.Codes))
		for i, cd := range u.Codes {
			hashes[i] = env.Hasher.Compute(string(cd))
		}
		detail := func(extra map[string]interface{}) map[string]interface{} {
			m := map[string]interface{}{"trace": w.Trace, "pruning": opt.Pruning}
			for k, v := range extra {
				m[k] = v
			}
			return m
		}
		var events []string
		nonTrivial := false
		lastRefs := map[string]int{}
		last := "start"

		// step-level oracle: existence
		stepCheck := func() bool {
			real, errR := w.CodeRefsReal()
			if errR != nil {
				// the accounts cannot be enumerated (a C06-class problem): no C07 verdict for this history
				r.Count("histories_abandoned_accounts_unreadable", 1)
				return false
			}
			model := w.CodeRefsModel()
			for i, h := range hashes {
				r.Eval(1)
				n := real[string(h)]
				if n != model[string(h)] {
					// not a C07 matter (the accounts themselves are wrong: C06); the oracle keeps using the real accounts
					r.Count("checks_where_real_referrers_differ_from_model", 1)
				}
				got := env.ADB.GetCode(h)
				if n > 0 && got == nil {
					r.Violation(c.Idx, "code-entry-missing-while-referenced at=step", fmt.Sprintf("after %s: GetCode(C%d) == nil but %d account(s) refer to it", last, i, n), detail(map[string]interface{}{"code": i, "refs": n}))
					return false
				}
				if n == 0 && got != nil {
					r.Violation(c.Idx, "code-entry-present-without-references at=step", fmt.Sprintf("after %s: GetCode(C%d) != nil but no account refers to it", last, i), detail(map[string]interface{}{"code": i}))
					return false
				}
				if n > 0 && !bytes.Equal(got, u.Codes[i]) {
					r.Violation(c.Idx, "code-bytes-differ at=step", fmt.Sprintf("after %s: GetCode(C%d) = %q want %q", last, i, got, u.Codes[i]), detail(nil))
					return false
				}
				if n != lastRefs[string(h)] {
					events = append(events, fmt.Sprintf("%s:C%d:%d>%d", last, i%4, lastRefs[string(h)], n))
					if n >= 2 || (n == 0 && lastRefs[string(h)] > 0) {
						nonTrivial = true
					}
					r.Max("max_references_to_one_code", int64(n))
					lastRefs[string(h)] = n
				}
			}
			// accounts whose code hash is none of the blobs cannot exist
			total := 0
			for _, n := range real {
				total += n
			}
			known := 0
			for _, h := range hashes {
				known += real[string(h)]
			}
			if total != known {
				r.Violation(c.Idx, "account-with-unknown-code-hash", fmt.Sprintf("after %s: %d accounts carry a code hash that is not one of the blobs", last, total-known), detail(nil))
				return false
			}
			return true
		}

		// commit-level oracle: exact reference counts in the committed main trie
		commitCheck := func(root []byte) bool {
			real, errR := w.CodeRefsReal()
			if errR != nil {
				r.Count("histories_abandoned_accounts_unreadable", 1)
				return false
			}
			t, errT := env.ADB.GetTrie(root)
			if errT != nil {
				r.Violation(c.Idx, "committed-root-not-loadable", errT.Error(), detail(nil))
				return false
			}
			for i, h := range hashes {
				r.Eval(1)
				r.Count("commit_leaf_checks", 1)
				n := real[string(h)]
				raw, errG := t.Get(h)
				if errG != nil {
					r.Violation(c.Idx, "committed-trie-get-error", errG.Error(), detail(nil))
					return false
				}
				if n == 0 {
					if len(raw) != 0 {
						r.Violation(c.Idx, "code-entry-present-without-references at=commit", fmt.Sprintf("commit: leaf under hash of C%d exists (%d bytes) but no account refers to it", i, len(raw)), detail(map[string]interface{}{"code": i}))
						return false
					}
					continue
				}
				if len(raw) == 0 {
					r.Violation(c.Idx, "code-entry-missing-while-referenced at=commit", fmt.Sprintf("commit: no leaf under hash of C%d but %d account(s) refer to it", i, n), detail(map[string]interface{}{"code": i, "refs": n}))
					return false
				}
				var ce state.CodeEntry
				if errU := env.Marsh.Unmarshal(&ce, raw); errU != nil {
					r.Violation(c.Idx, "code-entry-undecodable at=commit", errU.Error(), detail(nil))
					return false
				}
				if !bytes.Equal(ce.Code, u.Codes[i]) {
					r.Violation(c.Idx, "code-bytes-differ at=commit", fmt.Sprintf("commit: entry of C%d holds %q", i, ce.Code), detail(nil))
					return false
				}
				if int(ce.NumReferences) > n {
					r.Violation(c.Idx, "refcount-too-high at=commit", fmt.Sprintf("commit: C%d NumReferences=%d but %d account(s) refer to it", i, ce.NumReferences, n), detail(map[string]interface{}{"code": i, "refs": n, "num_references": ce.NumReferences}))
					return false
				}
				if int(ce.NumReferences) < n {
					r.Violation(c.Idx, "refcount-too-low at=commit", fmt.Sprintf("commit: C%d NumReferences=%d but %d account(s) refer to it", i, ce.NumReferences, n), detail(map[string]interface{}{"code": i, "refs": n, "num_references": ce.NumReferences}))
					return false
				}
				r.Count(fmt.Sprintf("commit_refcount_%d_confirmed", minInt(n, 5)), 1)
			}
			// no orphan entries: leaves = accounts + referenced hashes
			ch, errL := env.ADB.GetAllLeaves(root)
			if errL != nil {
				r.Violation(c.Idx, "committed-leaves-error", errL.Error(), detail(nil))
				return false
			}
			leaves := 0
			for range ch {
				leaves++
			}
			wantLeaves := 0
			for _, a := range u.Addrs {
				if _, errA := env.ADB.GetExistingAccount(a); errA == nil {
					wantLeaves++
				}
			}
			for _, h := range hashes {
				if real[string(h)] > 0 {
					wantLeaves++
				}
			}
			r.Eval(1)
			if leaves != wantLeaves {
				r.Violation(c.Idx, "unexpected-leaf-count at=commit", fmt.Sprintf("commit: main trie has %d leaves, accounts + referenced code entries = %d", leaves, wantLeaves), detail(nil))
				return false
			}
			return true
		}

		var stack []*acctmodel.Snapshot
		steps := rng.Range(15, 60)
		// syncModel copies the real account into the model after a save through a stale handle (the C07
		// oracle counts referrers from the real accounts; the model only steers the generator)
		syncModel := func(addr []byte) {
			acc, errA := env.ADB.GetExistingAccount(addr)
			if errA != nil {
				delete(w.Model.Accounts, string(addr))
				return
			}
			ua, ok := acc.(state.UserAccountHandler)
			if !ok {
				return
			}
			m := &acctmodel.Account{Balance: new(big.Int).Set(ua.GetBalance()), Nonce: ua.GetNonce(),
				Owner: append([]byte{}, ua.GetOwnerAddress()...), CodeMetadata: append([]byte{}, ua.GetCodeMetadata()...),
				UserName: append([]byte{}, ua.GetUserName()...), Storage: map[string][]byte{}}
			if len(ua.GetCodeHash()) > 0 {
				m.Code = append([]byte{}, env.ADB.GetCode(ua.GetCodeHash())...)
			}
			w.Model.Accounts[string(addr)] = m
		}
		for s := 0; s < steps; s++ {
			x := rng.Intn(100)
			if handleMode && rng.Chance(40, 100) {
				if len(pool) < 2 || (len(pool) < 6 && rng.Chance(1, 3)) {
					// take (and keep) a handle; favour an address that already has a pooled handle
					addr := u.Addrs[rng.Intn(len(u.Addrs))]
					if len(pool) > 0 && rng.Chance(1, 2) {
						addr = pool[rng.Intn(len(pool))].addr
					}
					h, errL := env.ADB.LoadAccount(append([]byte{}, addr...))
					if errL != nil {
						continue
					}
					if ua, ok := h.(state.UserAccountHandler); ok {
						pool = append(pool, pooled{addr: addr, h: ua})
						r.Count("handles_taken", 1)
						w.Note("H%d := LoadAccount(%x..)", len(pool)-1, addr[:2])
					}
					continue
				}
				i := rng.Intn(len(pool))
				pc := pool[i]
				jl := env.ADB.JournalLen()
				var errS error
				if resaveMode && pc.codeSet && rng.Chance(2, 5) {
					// the handle keeps the code of its last SetCode call; only the nonce changes
					pc.h.IncreaseNonce(1)
					errS = env.ADB.SaveAccount(pc.h)
					r.Count("resaves_through_kept_handle_without_setcode", 1)
					w.Note("H%d.IncreaseNonce(1); SaveAccount(H%d) (no new SetCode) -> %v", i, i, errS)
					last = "resave-through-kept-handle"
				} else {
					var code []byte
					ci := -1
					if !rng.Chance(1, 6) {
						ci = rng.Intn(len(u.Codes))
						code = append([]byte{}, u.Codes[ci]...)
					}
					pc.h.SetCode(code)
					pool[i].codeSet = true
					errS = env.ADB.SaveAccount(pc.h)
					r.Count("saves_through_kept_handle", 1)
					w.Note("H%d.SetCode(C%d); SaveAccount(H%d) -> %v", i, ci, i, errS)
					last = "save-through-kept-handle"
				}
				if errS != nil {
					last = "failed-" + last + "+revert"
					if errV := env.ADB.RevertToSnapshot(jl); errV != nil {
						r.Violation(c.Idx, "revert-error-after-failed-op", fmt.Sprintf("SaveAccount through a kept handle failed (%v), RevertToSnapshot(%d): %v", errS, jl, errV), detail(nil))
						return
					}
					if jl == 0 {
						stack = nil
					}
				}
				syncModel(pc.addr)
				if !stepCheck() {
					return
				}
				continue
			}
			switch {
			case x < 60:
				op := w.RandomOp(rng, wt)
				jl := env.ADB.JournalLen()
				res := w.Apply(op)
				r.Count("ops", 1)
				last = "save"
				if op.Kind == acctmodel.OpRemove {
					last = "remove"
				}
				if res.Err != nil {
					last = "failed-" + last + "+revert"
					r.Count("ops_failed_then_reverted", 1)
					if res.RecoverErr != nil {
						r.Violation(c.Idx, "revert-error-after-failed-op", fmt.Sprintf("op failed (%v), RevertToSnapshot(%d): %v", res.Err, jl, res.RecoverErr), detail(nil))
						return
					}
					if jl == 0 {
						stack = nil
					}
				}
			case x < 72:
				sn, errS := w.Snapshot()
				if errS != nil {
					return
				}
				stack = append(stack, sn)
				continue
			case x < 84:
				if len(stack) == 0 {
					continue
				}
				i := rng.Intn(len(stack))
				if _, errV := w.Revert(stack[i]); errV != nil {
					r.Violation(c.Idx, "revert-error", errV.Error(), detail(nil))
					return
				}
				if stack[i].JournalLen == 0 {
					stack = stack[:0]
				} else {
					stack = stack[:i+1]
				}
				r.Count("reverts", 1)
				last = "revert"
			case x < 96:
				root, errC := w.Commit()
				if errC != nil {
					r.Violation(c.Idx, "commit-error", errC.Error(), detail(nil))
					return
				}
				stack = nil
				r.Count("commits", 1)
				last = "commit"
				if !commitCheck(root) {
					return
				}
			default:
				if _, errV := w.RevertToCommitted(); errV != nil {
					r.Violation(c.Idx, "revert-error", errV.Error(), detail(nil))
					return
				}
				stack = nil
				r.Count("reverts_to_zero", 1)
				last = "revert0"
			}
			if !stepCheck() {
				return
			}
		}
		// forced final commit: exact counts for whatever the history ended with (often a revert)
		root, errC := w.Commit()
		if errC != nil {
			r.Violation(c.Idx, "commit-error", errC.Error(), detail(nil))
			return
		}
		r.Count("commits", 1)
		events = append(events, "final-after-"+last)
		last = "commit"
		if !commitCheck(root) || !stepCheck() {
			return
		}
		for k, v := range w.Counts {
			if strings.HasPrefix(k, "code_") || k == "remove" || k == "create" || k == "op_failed_and_reverted" {
				r.Count("w_"+k, v)
			}
		}
		if nonTrivial {
			r.ShapeHash(events...)
		} else {
			r.Trivial()
		}
		if nonTrivial && r.NeedSample() {
			tr := w.Trace
			if len(tr) > 30 {
				tr = tr[:30]
			}
			r.Sample(map[string]interface{}{"case": c.Idx, "addresses": len(u.Addrs), "codes": len(u.Codes), "code_events": events, "first_steps": tr})
		}
	})
	r.Finish()
}

func minInt(a, b int) int {
	if a < b {
		return a
	}
	return b
}
