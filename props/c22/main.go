// C22 — the estimated gas limit is affordable.
// Monitor shape: invariant on the real economicsData.ComputeGasLimitBasedOnBalance (configs, flags and
// transactions from the generator shared with C21): err == nil  =>  ComputeTxFee(tx with the estimated
// limit) <= balance - value. Violation keys: "band=<band> estimate-unaffordable", and for crashes
// "band=<band> panic:div-by-zero processing-price=0" / "... gas-price=0" / "... panic:<frame>".
package main

import (
	"fmt"
	"math/big"
	"strings"

	logger "github.com/ElrondNetwork/elrond-go-logger"
	"verif/internal/econ"
	"verif/internal/vk"
)

type balCase struct {
	class string
	bal   *big.Int
}

func balances(rng *vk.Rand, tx *econ.Tx, moveFee, cap *big.Int) []balCase {
	v := tx.Value
	add := func(x *big.Int) *big.Int { return big.NewInt(0).Add(v, x) }
	out := []balCase{
		{"balance=value+movefee", add(moveFee)},
		{"balance=value+movefee+1", add(big.NewInt(0).Add(moveFee, big.NewInt(1)))},
		{"balance=value+limit*price", add(cap)},
		{"balance=value+random<2*limit*price", add(econ.RandBelow(rng, big.NewInt(0).Add(big.NewInt(0).Lsh(cap, 1), big.NewInt(2))))},
		{"balance=value+random<2*limit*price", add(econ.RandBelow(rng, big.NewInt(0).Add(big.NewInt(0).Lsh(cap, 1), big.NewInt(2))))},
		{"balance=value+movefee+small", add(big.NewInt(0).Add(moveFee, big.NewInt(int64(rng.Intn(1000000)))))},
	}
	if moveFee.Sign() > 0 {
		out = append(out, balCase{"balance=value+movefee-1", add(big.NewInt(0).Sub(moveFee, big.NewInt(1)))})
		out = append(out, balCase{"balance=value+random<movefee", add(econ.RandBelow(rng, moveFee))})
	}
	switch rng.Intn(6) {
	case 0:
		out = append(out, balCase{"balance=value", add(big.NewInt(0))})
	case 1:
		if v.Sign() > 0 {
			out = append(out, balCase{"balance<value", econ.RandBelow(rng, v)})
		}
	case 2:
		out = append(out, balCase{"balance=huge", add(big.NewInt(0).Lsh(big.NewInt(1), uint(64+rng.Intn(100))))})
	case 3:
		out = append(out, balCase{"balance=value+1", add(big.NewInt(1))})
	}
	return out
}

func main() {
	_ = logger.SetLogLevel("*:NONE")
	r := vk.Start("C22")
	r.Rule("configs, flags (EpochConfirmed, epochs 0..3 in random order) and valid transactions from the generator shared with C21 (bands protocol/small/>2^53; modifier classes incl. tiny and 1-ulp); per transaction 6..9 balances around value+moveFee, value+limit*price, random, huge, below value. A call is non-trivial when ComputeGasLimitBasedOnBalance returns no error; distinct = distinct (band, flags, modifier class, balance class, data class) tuples.")
	r.Assume(
		"config domain as in C21 (no uint64 overflow in ComputeGasLimit); modifier within what the constructor accepts ([1e-8,1])",
		"the transaction used to price the estimate is the same transaction with only the gas limit replaced",
		"a panic of ComputeGasLimitBasedOnBalance for an accepted config and a transaction that passes CheckValidityTxValues is reported (own key), since no estimate is produced",
	)
	r.MinShapes(100)
	nCases := r.N(900, 24000)
	txPerEpoch := 30

	r.Parallel(nCases, func(c *vk.Case) {
		band := []econ.Band{econ.BandProtocol, econ.BandProtocol, econ.BandSmall, econ.BandSmall, econ.BandHuge}[c.Idx%5]
		cfg := econ.GenCfg(c.Rng, band)
		ed, err := cfg.Build(&econ.BuiltIn{})
		if err != nil {
			r.Count("configs_rejected", 1)
			r.Trivial()
			if cfg.ExpectReject == "" {
				r.Count("configs_rejected_though_meant_valid", 1) // the property quantifies over accepted configs only
			}
			return
		}
		if cfg.ExpectReject != "" {
			r.Count("configs_accepted_though_meant_invalid:"+cfg.ExpectReject, 1)
			return
		}
		r.Count("configs_accepted", 1)
		for _, ep := range c.Rng.Perm(4) {
			epoch := uint32(ep)
			ed.EpochConfirmed(epoch, 0)
			pen, mod := cfg.Flags(epoch)
			for i := 0; i < txPerEpoch; i++ {
				tx := econ.GenTx(c.Rng, cfg)
				if tx.IsSCR {
					continue // the estimator prices user transactions
				}
				if verr := ed.CheckValidityTxValues(tx.H); verr != nil {
					r.Trivial()
					r.Count("txs_invalid", 1)
					continue
				}
				r.Count("txs_valid", 1)
				moveFee := ed.ComputeMoveBalanceFee(tx.H)
				cap := econ.Mul(tx.GasLimit, tx.GasPrice)
				proc := ed.GasPriceForProcessing(tx.H)
				for _, b := range balances(c.Rng, tx, moveFee, cap) {
					var g uint64
					var gerr error
					balCopy := big.NewInt(0).Set(b.bal)
					detail := func() map[string]interface{} {
						return map[string]interface{}{"config": cfg.Map(), "epoch": epoch, "flags": econ.FlagStr(pen, mod), "tx": tx.Map(),
							"balance": b.bal.String(), "balanceClass": b.class, "moveBalanceFee": moveFee.String(), "gasPriceForProcessing": proc}
					}
					panicked, pv, stack := vk.Guard(func() { g, gerr = ed.ComputeGasLimitBasedOnBalance(tx.H, balCopy) })
					r.Eval(1)
					if panicked {
						cls := "panic:" + vk.TopFrame(stack)
						if strings.Contains(fmt.Sprint(pv), "division by zero") {
							switch {
							case mod && proc == 0:
								cls = "panic:div-by-zero processing-price=0"
							case !mod && tx.GasPrice == 0:
								cls = "panic:div-by-zero gas-price=0"
							}
						}
						r.Count("panics", 1)
						d := detail()
						d["panic"], d["stack"] = fmt.Sprint(pv), stack
						r.Violation(c.Idx, "band="+band.String()+" "+cls,
							fmt.Sprintf("ComputeGasLimitBasedOnBalance panics: %v [%s; minGasPrice %d modifier %v; tx price %d (processing price %d) limit %d data %d value %s; balance %s]",
								pv, econ.FlagStr(pen, mod), cfg.MinGasPrice, cfg.Modifier, tx.GasPrice, proc, tx.GasLimit, tx.DataLen, tx.Value, b.bal), d)
						continue
					}
					if balCopy.Cmp(b.bal) != 0 {
						r.Violation(c.Idx, "band="+band.String()+" balance-argument-mutated", fmt.Sprintf("balance %s became %s", b.bal, balCopy), detail())
					}
					if gerr != nil {
						r.Count("estimates_refused: "+gerr.Error(), 1)
						r.Trivial()
						continue
					}
					r.Count("estimates_given", 1)
					avail := big.NewInt(0).Sub(b.bal, tx.Value)
					fee := ed.ComputeTxFee(tx.WithGasLimit(g))
					r.Shape(fmt.Sprintf("%s %s mod=%s %s data=%s", band, econ.FlagStr(pen, mod), cfg.ModClass, b.class, tx.DataClass))
					if g > tx.MoveGas {
						r.Count("estimates_above_move_gas", 1)
					}
					if fee.Cmp(avail) > 0 {
						d := detail()
						d["estimatedGasLimit"], d["feeWithEstimate"], d["balanceMinusValue"] = g, fee.String(), avail.String()
						r.Violation(c.Idx, "band="+band.String()+" estimate-unaffordable",
							fmt.Sprintf("estimated gas limit %d costs %s > balance-value %s (excess %s) [%s; modifier %v; tx price %d data %d]",
								g, fee, avail, big.NewInt(0).Sub(fee, avail), econ.FlagStr(pen, mod), cfg.Modifier, tx.GasPrice, tx.DataLen), d)
					} else {
						r.Max("max_unused_balance_bits", int64(big.NewInt(0).Sub(avail, fee).BitLen()))
						if r.NeedSample() && mod && g > tx.MoveGas && band == econ.BandProtocol {
							r.Sample(map[string]interface{}{"config": cfg.Map(), "epoch": epoch, "tx": tx.Map(), "balance": b.bal.String(),
								"estimatedGasLimit": g, "feeWithEstimate": fee.String(), "balanceMinusValue": avail.String()})
						}
					}
				}
			}
		}
	})
	r.Finish()
}
