package main

import (
	"fmt"
	"math"
	"runtime"
	"sync"
	"sync/atomic"
	"time"

	logger "github.com/ElrondNetwork/elrond-go-logger"
	"github.com/ElrondNetwork/elrond-go/config"
	"github.com/ElrondNetwork/elrond-go/data/block"
	"github.com/ElrondNetwork/elrond-go/dataRetriever"
	"github.com/ElrondNetwork/elrond-go/epochStart/metachain"
	esmock "github.com/ElrondNetwork/elrond-go/epochStart/mock"
	"github.com/ElrondNetwork/elrond-go/hashing/blake2b"
	"github.com/ElrondNetwork/elrond-go/marshal"
	"github.com/ElrondNetwork/elrond-go/storage"
	"verif/internal/vk"
)

// pauseWriter is a log observer that discards the output and pauses the logging goroutine briefly on every
// line: a yield or a short sleep. It does not look at the text. On the pinned tree the trigger logs while it
// holds its mutex, so a pause only makes the other goroutines wait (a pre-emption that can happen anyway).
type pauseWriter struct {
	n     uint64
	seed  uint64
	lines int64
}

func splitmix(x uint64) uint64 {
	x += 0x9e3779b97f4a7c15
	x = (x ^ (x >> 30)) * 0xbf58476d1ce4e5b9
	x = (x ^ (x >> 27)) * 0x94d049bb133111eb
	return x ^ (x >> 31)
}

func (w *pauseWriter) Write(p []byte) (int, error) {
	k := atomic.AddUint64(&w.n, 1)
	atomic.AddInt64(&w.lines, 1)
	x := splitmix(k ^ w.seed)
	if x%4 == 0 {
		runtime.Gosched()
	} else {
		time.Sleep(time.Duration(20+(x>>8)%280) * time.Microsecond)
	}
	return len(p), nil
}

type startEvent struct {
	epoch uint32
	round uint64
}

func runConcurrentPhase(r *vk.Run, firstIdx int) {
	nConc := r.N(700, 20000)

	// DEBUG for the epochStart loggers only, output discarded by the pausing observer
	prev := logger.GetLogLevelPattern()
	logger.ClearLogObservers()
	pw := &pauseWriter{seed: splitmix(r.Seed)}
	if err := logger.AddLogObserver(pw, &logger.PlainFormatter{}); err != nil {
		r.Inconclusive("log observer could not be registered: " + err.Error())
		return
	}
	_ = logger.SetLogLevel("*:NONE,epochStart:DEBUG")
	defer func() {
		_ = logger.SetLogLevel("*:NONE")
		_ = logger.RemoveLogObserver(pw)
		_ = prev
	}()

	// the cases mostly wait (lock hand-over, short sleeps): more workers than cores
	workers := 4 * runtime.GOMAXPROCS(0)
	if workers > 96 {
		workers = 96
	}
	r.ParallelW(firstIdx+nConc, workers, func(c *vk.Case) {
		if c.Idx < firstIdx {
			return
		}
		runConcurrentCase(r, c)
	})
	r.Extra("concurrent_phase_log_lines_paused", atomic.LoadInt64(&pw.lines))
	if r.ReplayCase < 0 {
		if r.Counter("concurrent: epoch starts") == 0 || r.Counter("concurrent: ForceEpochStart calls during which the epoch changed") == 0 {
			r.Inconclusive("concurrent phase: no forced request overlapped an epoch change")
		}
		if atomic.LoadInt64(&pw.lines) == 0 {
			r.Inconclusive("concurrent phase: the log observer saw no line of the trigger")
		}
	}
}

func runConcurrentCase(r *vk.Run, c *vk.Case) {
	rng := c.Rng
	minR := uint64(rng.Range(2, 20))
	per := minR + uint64(rng.Intn(31))
	startEpoch := uint32(0)
	startRound := uint64(0)
	if rng.Chance(1, 3) {
		startEpoch = uint32(rng.Intn(50))
		startRound = uint64(rng.Intn(5000))
	}
	st := esmock.NewStorerMock()
	tr, err := metachain.NewEpochStartTrigger(&metachain.ArgsNewMetaEpochStartTrigger{
		GenesisTime:        time.Time{},
		Settings:           &config.EpochStartConfig{MinRoundsBetweenEpochs: int64(minR), RoundsPerEpoch: int64(per)},
		Epoch:              startEpoch,
		EpochStartRound:    startRound,
		EpochStartNotifier: &esmock.EpochStartNotifierStub{},
		Marshalizer:        &marshal.GogoProtoMarshalizer{},
		Hasher:             blake2b.NewBlake2b(),
		Storage:            &esmock.ChainStorerStub{GetStorerCalled: func(dataRetriever.UnitType) storage.Storer { return st }},
		AppStatusHandler:   &esmock.AppStatusHandlerStub{},
	})
	if err != nil {
		r.Violation(c.Idx, "constructor", fmt.Sprintf("NewEpochStartTrigger(min %d, per %d): %v", minR, per, err), nil)
		return
	}

	steps := rng.Range(150, 350)
	delayDen := []int{0, 4, 4}[rng.Intn(3)] // start-of-epoch block committed 1..3 rounds late in 1 of delayDen starts
	nForcers := 2
	forcerRngs := make([]*vk.Rand, nForcers)
	for i := range forcerRngs {
		forcerRngs[i] = rng.Fork()
	}

	var curRound uint64 = startRound
	var stop int32
	var wg sync.WaitGroup
	var nForce, nOverlap int64
	kindsSeen := make([]map[string]int, nForcers)

	for f := 0; f < nForcers; f++ {
		wg.Add(1)
		kindsSeen[f] = map[string]int{}
		go func(f int) {
			defer wg.Done()
			fr := forcerRngs[f]
			for atomic.LoadInt32(&stop) == 0 {
				base := tr.EpochStartRound()
				cur := atomic.LoadUint64(&curRound)
				var x uint64
				kind := ""
				switch fr.Intn(10) {
				case 0, 1:
					kind = "past"
					x = uint64(fr.Intn(int(minU(base, 1<<31) + 1)))
				case 2:
					kind, x = "zero", 0
				case 3, 4:
					kind, x = "below-min", base+uint64(fr.Intn(int(minR)))
				case 5:
					kind, x = "at-min", base+minR
				case 6:
					kind, x = "in-range", base+minR+uint64(fr.Intn(int(per-minR)+1))
				case 7:
					kind, x = "ahead-of-current", cur+uint64(fr.Range(1, 10))
				case 8:
					kind, x = "too-far", base+per+uint64(fr.Range(1, 50))
				default:
					kind, x = "max-uint64", math.MaxUint64
				}
				e0 := tr.Epoch()
				tr.ForceEpochStart(x)
				e1 := tr.Epoch()
				atomic.AddInt64(&nForce, 1)
				if e0 != e1 {
					atomic.AddInt64(&nOverlap, 1)
				}
				kindsSeen[f][kind]++
				if fr.Chance(1, 3) {
					time.Sleep(time.Duration(fr.Range(10, 150)) * time.Microsecond)
				} else {
					runtime.Gosched()
				}
			}
		}(f)
	}

	// ---- the block-processing goroutine: the only caller of Update / SetProcessed
	var events []startEvent
	var ops []string
	logOp := func(format string, a ...interface{}) {
		ops = append(ops, fmt.Sprintf(format, a...))
		if len(ops) > 60 {
			ops = ops[len(ops)-40:]
		}
	}
	detail := func() map[string]interface{} {
		ev := events
		if len(ev) > 12 {
			ev = ev[len(ev)-12:]
		}
		var es []string
		for _, e := range ev {
			es = append(es, fmt.Sprintf("epoch %d starts in round %d", e.epoch, e.round))
		}
		return map[string]interface{}{"min_rounds": minR, "rounds_per_epoch": per, "start_epoch": startEpoch, "start_round": startRound,
			"concurrent": true, "forcer_goroutines": nForcers, "last_start_events": es, "last_ops_of_the_block_goroutine": append([]string{}, ops...)}
	}

	round := startRound
	nonce := uint64(rng.Range(4, 40))
	prevEpoch, prevTrig := startEpoch, startRound // previous epoch start: epoch number and trigger round
	committedRound := startRound                  // EpochStartRound() as the block goroutine set it last
	pending := false
	pendingLeft := 0
	nStarts, nEarly, nDelayed := 0, 0, 0
	evals := 0
	for i := 0; i < steps; i++ {
		inc := uint64(1)
		if rng.Chance(1, 10) {
			inc = uint64(rng.Range(2, 3))
		}
		round += inc
		nonce++
		atomic.StoreUint64(&curRound, round)
		tr.Update(round, nonce)
		evals++
		if !pending {
			if tr.IsEpochStart() {
				e := tr.Epoch()
				events = append(events, startEvent{e, round})
				logOp("Update(round %d) => epoch %d starts", round, e)
				nStarts++
				if round <= committedRound+per {
					nEarly++
				}
				if e != prevEpoch+1 {
					r.Violation(c.Idx, "concurrent epoch-skip", fmt.Sprintf("ForceEpochStart concurrent with Update/SetProcessed: epoch %d started in round %d, the next start (round %d) announces epoch %d", prevEpoch, prevTrig, round, e), detail())
				}
				if round-prevTrig < minR {
					r.Violation(c.Idx, "concurrent epoch-shorter-than-min", fmt.Sprintf("ForceEpochStart concurrent with Update/SetProcessed, min %d rounds/per %d: epoch %d started in round %d, epoch %d starts in round %d (%d rounds later)", minR, per, prevEpoch, prevTrig, e, round, round-prevTrig), detail())
				}
				if got := tr.EpochStartRound(); got != round {
					r.Violation(c.Idx, "concurrent start-round-mismatch", fmt.Sprintf("epoch started in round %d but EpochStartRound()=%d", round, got), detail())
				}
				prevEpoch, prevTrig = e, round
				committedRound = round
				pending = true
				pendingLeft = 0
				if delayDen > 0 && rng.Chance(1, delayDen) {
					pendingLeft = rng.Range(1, 3)
					nDelayed++
				}
			} else {
				if tr.Epoch() != prevEpoch {
					r.Violation(c.Idx, "concurrent epoch-changed-without-start", fmt.Sprintf("Epoch() is %d without an epoch start (last started epoch %d)", tr.Epoch(), prevEpoch), detail())
				}
				if round > committedRound+per {
					r.Violation(c.Idx, "concurrent start-late", fmt.Sprintf("epoch start round %d, rounds per epoch %d, Update(round %d, nonce %d): no epoch start", committedRound, per, round, nonce), detail())
				}
			}
		} else {
			pendingLeft--
		}
		if pending && pendingLeft <= 0 {
			tr.SetProcessed(&block.MetaBlock{Epoch: prevEpoch, Round: round, Nonce: nonce,
				EpochStart: block.EpochStart{LastFinalizedHeaders: []block.EpochStartShardData{{ShardID: 0}}}}, nil)
			logOp("SetProcessed(start-of-epoch meta block epoch %d round %d)", prevEpoch, round)
			committedRound = round
			pending = false
			evals++
		}
		if i%8 == 0 {
			runtime.Gosched()
		}
	}
	atomic.StoreInt32(&stop, 1)
	wg.Wait()

	r.Eval(evals)
	r.Count("concurrent: cases", 1)
	r.Count("concurrent: epoch starts", nStarts)
	r.Count("concurrent: epoch starts before the normal end (forced)", nEarly)
	r.Count("concurrent: start-of-epoch blocks delayed", nDelayed)
	r.Count("concurrent: ForceEpochStart calls", int(nForce))
	r.Count("concurrent: ForceEpochStart calls during which the epoch changed", int(nOverlap))
	for f := range kindsSeen {
		for k, v := range kindsSeen[f] {
			r.Count("concurrent: force kind="+k, v)
		}
	}
	if nStarts > 0 && nForce > 0 {
		b := "0"
		switch {
		case nOverlap > 3:
			b = ">3"
		case nOverlap > 0:
			b = "1..3"
		}
		r.Shape(fmt.Sprintf("concurrent delayed=%v forcedStarts=%v overlaps=%s", nDelayed > 0, nEarly > 0, b))
	} else {
		r.Trivial()
	}
}
