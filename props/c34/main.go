// C34 — metachain epochs respect the minimum and maximum length.
// Monitor shape: reference model over histories. The real metachain epoch-start trigger
// (epochStart/metachain.NewEpochStartTrigger) is driven with monotone round sequences (skipped rounds,
// big jumps), forced epoch-start requests with any round (ahead, equal, in the past of the current round,
// before the start of the current epoch, 0, MaxUint64, around the clamping bounds), delayed start-of-epoch
// blocks and SetProcessed calls. A part of the cases sends the forced requests through the real hardfork
// trigger (update/trigger), which is where arbitrary requested rounds come from in production (the round
// of a network message is handed verbatim to ForceEpochStart).
//
// Rollbacks: a part of the announced epoch starts is abandoned (the start-of-epoch block of epoch N+1 never
// gets committed) and the chain is rolled back onto the committed start-of-epoch block of epoch N
// (RevertStateToBlock with a start-of-epoch header, which is "process that block again"). The clauses of the
// property are then applied from that block: the next epoch start must announce N+1.
//
// Concurrent phase (concurrent.go): forced requests come from other goroutines (API / hardfork trigger) than the
// block-processing goroutine that calls Update/SetProcessed; a log observer pauses briefly on every line of the
// epochStart loggers so that a goroutine is pre-empted where it logs; the oracle is applied to the recorded
// sequence of epoch-start events.
package main

import (
	"encoding/hex"
	"fmt"
	"math"
	"sort"
	"strings"
	"sync"
	"time"

	logger "github.com/ElrondNetwork/elrond-go-logger"
	"github.com/ElrondNetwork/elrond-go/config"
	"github.com/ElrondNetwork/elrond-go/data/block"
	"github.com/ElrondNetwork/elrond-go/data/endProcess"
	"github.com/ElrondNetwork/elrond-go/dataRetriever"
	"github.com/ElrondNetwork/elrond-go/epochStart/metachain"
	esmock "github.com/ElrondNetwork/elrond-go/epochStart/mock"
	"github.com/ElrondNetwork/elrond-go/hashing/blake2b"
	"github.com/ElrondNetwork/elrond-go/marshal"
	"github.com/ElrondNetwork/elrond-go/process/smartContract"
	"github.com/ElrondNetwork/elrond-go/storage"
	updmock "github.com/ElrondNetwork/elrond-go/update/mock"
	hftrigger "github.com/ElrondNetwork/elrond-go/update/trigger"
	"verif/internal/vk"
)

const minimumNonceToStartEpoch = 4 // documented guard of the trigger: no epoch start below this nonce

// the part of the trigger the monitor observes
type epochTrigger interface {
	Update(round uint64, nonce uint64)
	ForceEpochStart(round uint64)
	IsEpochStart() bool
	Epoch() uint32
	MetaEpoch() uint32
	EpochStartRound() uint64
	IsInterfaceNil() bool
}

type request struct {
	kind         string
	r            uint64
	base         uint64 // start round of the current epoch as seen by the trigger when the request was made
	whilePending bool
	via          string
}

type caseState struct {
	minR, per uint64
	ops       []string
}

func (cs *caseState) log(format string, a ...interface{}) {
	cs.ops = append(cs.ops, fmt.Sprintf(format, a...))
}

func (cs *caseState) tail(n int) []string {
	if len(cs.ops) <= n {
		return cs.ops
	}
	return cs.ops[len(cs.ops)-n:]
}

func lenBucket(length, minR, per uint64) string {
	switch {
	case length < minR:
		return "<min"
	case length == minR:
		return "=min"
	case length <= per:
		return "min..per"
	case length == per+1:
		return "=per+1"
	default:
		return ">per+1"
	}
}

func main() {
	_ = logger.SetLogLevel("*:NONE")
	r := vk.Start("C34")
	r.Rule("each case: random (MinRoundsBetweenEpochs 1..25, RoundsPerEpoch min..min+40, initial epoch/start round), 150..400 steps of Update(round,nonce) with round increments 1 (mostly), 2..4 (skipped rounds) or a jump past the epoch; forced requests (1 in 7, 20 or 60 steps, or none, per case) of kinds ahead/equal/past-of-current-round/before-epoch-start/zero/max/too-far/at-clamp-bounds, issued directly or through the real hardfork trigger; the start-of-epoch block is processed immediately or after 1..4 further rounds; 1 in 8 announced epoch starts (once a start-of-epoch block was committed) is abandoned after 0..3 further rounds by RevertStateToBlock(last committed start-of-epoch block). Concurrent phase: per case one block-processing goroutine (Update every round, SetProcessed immediately or 1..3 rounds late) and two goroutines issuing ForceEpochStart (past/zero/below-min/in-range/ahead/too-far rounds), with a log observer that pauses (yield or 20..300 us sleep) on every line of the epochStart loggers; the oracle runs over the recorded (epoch, round) start events. One evaluation = one oracle application after an Update or SetProcessed. A finished epoch is non-trivial when it saw a forced request, a skipped round or a delayed start block; distinct = distinct (request kinds, delayed, skipped, length bucket).")
	r.Assume("the trigger's documented guard 'no epoch start below nonce 4' is modelled (no start is demanded below that nonce)",
		"the start round of an epoch is the round of its processed start-of-epoch block (EpochStartRound()); when a forced request arrives between the trigger and that block, the minimum is measured from the trigger round (the more lenient reading)",
		"the hardfork trigger (update/trigger) takes no epoch-length decision of its own; it is exercised only as the producer of requested rounds",
		"rollbacks are not named in the property's quantifier; they are included under this reading: after the chain is rolled back onto the committed start-of-epoch block of epoch N (RevertStateToBlock with that block, i.e. the block is processed again) the metachain epoch is N, so the next epoch start must announce N+1, not earlier than min rounds after that block, and at the first round after rounds-per-epoch at the latest; which forced requests survive a rollback is left open (no exact target is demanded)",
		"concurrent phase: Update/SetProcessed are called by one goroutine only (as in the node), ForceEpochStart by others; every call is atomic in the reference model, so in every interleaving consecutive epoch-start (trigger) rounds are at least min apart and a start is due once round > EpochStartRound()+rounds-per-epoch; pauses are injected only through the log observer, i.e. where the code itself calls the logger")
	r.MinShapes(20)
	nCases := r.N(6000, 300000)

	r.Parallel(nCases, func(c *vk.Case) {
		if c.Idx >= nCases { // replay of a case of the concurrent phase
			return
		}
		runCase(r, c)
	})
	strictMu.Lock()
	if strictWitness != nil {
		r.Extra("lenient_reading_witness (start fewer than min rounds after EpochStartRound(), accepted: measured from the trigger round)", strictWitness)
	}
	strictMu.Unlock()

	runConcurrentPhase(r, nCases)
	r.Finish()
}

// first sequence in which the lenient reading of the minimum (see Assume) was needed
var (
	strictMu      sync.Mutex
	strictWitness map[string]interface{}
)

func runCase(r *vk.Run, c *vk.Case) {
	rng := c.Rng
	cs := &caseState{}
	cs.minR = uint64(rng.Range(1, 25))
	cs.per = cs.minR + uint64(rng.Intn(41))
	startEpoch := uint32(0)
	startRound := uint64(0)
	if rng.Chance(1, 3) {
		startEpoch = uint32(rng.Intn(50))
		startRound = uint64(rng.Intn(5000))
	}
	st := esmock.NewStorerMock()
	var tr epochTrigger
	mt, err := metachain.NewEpochStartTrigger(&metachain.ArgsNewMetaEpochStartTrigger{
		GenesisTime:        time.Time{},
		Settings:           &config.EpochStartConfig{MinRoundsBetweenEpochs: int64(cs.minR), RoundsPerEpoch: int64(cs.per)},
		Epoch:              startEpoch,
		EpochStartRound:    startRound,
		EpochStartNotifier: &esmock.EpochStartNotifierStub{},
		Marshalizer:        &marshal.GogoProtoMarshalizer{},
		Hasher:             blake2b.NewBlake2b(),
		Storage:            &esmock.ChainStorerStub{GetStorerCalled: func(dataRetriever.UnitType) storage.Storer { return st }},
		AppStatusHandler:   &esmock.AppStatusHandlerStub{},
	})
	if err != nil {
		r.Violation(c.Idx, "constructor", fmt.Sprintf("NewEpochStartTrigger(min %d, per %d): %v", cs.minR, cs.per, err), nil)
		return
	}
	tr = mt

	round := startRound
	nonce := uint64(rng.Range(4, 40))
	if rng.Chance(1, 4) {
		nonce = 0
	}

	// the real hardfork trigger as a producer of forced requests
	viaHardfork := rng.Chance(1, 3)
	var hf interface {
		TriggerReceived(originalPayload []byte, data []byte, pkBytes []byte) (bool, error)
		Trigger(epoch uint32, withEarlyEndOfEpoch bool) error
	}
	trigPk := []byte("trigger-public-key")
	if viaHardfork {
		h, errH := hftrigger.NewTrigger(hftrigger.ArgHardforkTrigger{
			Enabled: true, EnabledAuthenticated: true, CloseAfterExportInMinutes: 2,
			TriggerPubKeyBytes: trigPk, SelfPubKeyBytes: []byte("self-public-key"),
			ArgumentParser:         smartContract.NewArgumentParser(),
			EpochProvider:          tr,
			ExportFactoryHandler:   &updmock.ExportFactoryHandlerStub{},
			ChanStopNodeProcess:    make(chan endProcess.ArgEndProcess, 1),
			EpochConfirmedNotifier: &updmock.EpochStartNotifierStub{},
			ImportStartHandler:     &updmock.ImportStartHandlerStub{},
			RoundHandler:           &updmock.RoundHandlerStub{IndexCalled: func() int64 { return int64(round) }},
		})
		if errH != nil {
			r.Inconclusive("hardfork trigger could not be built: " + errH.Error())
			return
		}
		hf = h
	}
	hx := func(s string) string { return hex.EncodeToString([]byte(s)) }
	force := func(fr uint64) string {
		if !viaHardfork {
			tr.ForceEpochStart(fr)
			return "direct"
		}
		// hardfork epoch far in the future: the hardfork itself is only armed, never executed
		hfEpoch := uint64(tr.MetaEpoch()) + 1000000
		payload := "hardfork trigger@" + hx(fmt.Sprintf("%d", int64(1)<<50)) + "@" + hx(fmt.Sprintf("%d", hfEpoch)) + "@" + hx("true") + "@" + hx(fmt.Sprintf("%d", fr))
		isHf, errT := hf.TriggerReceived([]byte("payload"), []byte(payload), trigPk)
		if !isHf || errT != nil {
			r.Inconclusive(fmt.Sprintf("hardfork trigger refused a well-formed message: %v %v", isHf, errT))
		}
		return "hardfork-message"
	}

	// model
	epoch := startEpoch
	baseStrict := startRound  // start round of the current epoch (EpochStartRound())
	baseLenient := startRound // round at which the trigger fired for the current epoch
	pending := false
	pendingLeft := 0
	var reqs []request
	skippedInEpoch := false
	delayedInEpoch := false
	var lastStart *block.MetaBlock // the last committed start-of-epoch block
	abandon := false               // the announced epoch start will be abandoned (rollback onto lastStart)
	rolledBack := false            // the current epoch was re-entered by a rollback
	var prevReqs []request         // requests of the epoch whose end was announced (needed when that end is abandoned)

	detail := func(extra map[string]interface{}) map[string]interface{} {
		m := map[string]interface{}{"min_rounds": cs.minR, "rounds_per_epoch": cs.per, "start_epoch": startEpoch, "start_round": startRound, "via_hardfork_trigger": viaHardfork, "last_ops": cs.tail(40)}
		for k, v := range extra {
			m[k] = v
		}
		return m
	}
	class := func() string {
		if len(reqs) == 0 {
			return "unforced"
		}
		for _, q := range reqs {
			if q.r < q.base {
				return "force-in-past"
			}
		}
		return "forced"
	}
	// all requests of this epoch unambiguous: made outside the pending window, inside [base+min, base+per]
	cleanTarget := func() (uint64, bool) {
		if len(reqs) == 0 {
			return 0, false
		}
		for _, q := range reqs {
			if q.whilePending || q.base != baseStrict || q.r < q.base+cs.minR || q.r > q.base+cs.per {
				return 0, false
			}
		}
		return reqs[len(reqs)-1].r, true
	}

	steps := rng.Range(150, 400)
	forceDen := []int{7, 7, 20, 60, 0}[rng.Intn(5)] // 0: a history without forced requests
	for i := 0; i < steps; i++ {
		// ---- forced request
		if forceDen > 0 && rng.Chance(1, forceDen) {
			base := tr.EpochStartRound()
			var fr uint64
			kind := ""
			switch rng.Intn(12) {
			case 0:
				kind, fr = "ahead", round+uint64(rng.Range(1, 30))
			case 1:
				kind, fr = "equal-current", round
			case 2:
				kind = "past-of-current"
				if round > base {
					fr = base + uint64(rng.Intn(int(round-base)))
				} else {
					fr = base
				}
			case 3, 4:
				kind = "before-epoch-start"
				if base > 0 {
					fr = uint64(rng.Intn(int(minU(base, 1<<31))))
					if rng.Chance(1, 3) {
						fr = base - 1
					}
				} else {
					kind, fr = "zero", 0
				}
			case 5:
				kind, fr = "zero", 0
			case 6:
				kind, fr = "max-uint64", math.MaxUint64
			case 7:
				kind, fr = "too-far", base+cs.per+uint64(rng.Range(1, 50))
			case 8:
				kind, fr = "at-min", base+cs.minR
			case 9:
				kind = "below-min"
				fr = base + uint64(rng.Intn(int(cs.minR)))
			case 10:
				kind, fr = "at-per", base+cs.per
			default:
				kind, fr = "in-range", base+cs.minR+uint64(rng.Intn(int(cs.per-cs.minR)+1))
			}
			via := force(fr)
			reqs = append(reqs, request{kind: kind, r: fr, base: base, whilePending: pending, via: via})
			cs.log("ForceEpochStart(%d) kind=%s via=%s [current round %d, epoch start round %d, pending=%v]", fr, kind, via, round, base, pending)
			r.Count("force kind="+kind, 1)
			r.Count("force via="+via, 1)
			if pending {
				r.Count("force while start block pending", 1)
			}
		} else if viaHardfork && forceDen > 0 && rng.Chance(1, 60) {
			// self-originated hardfork with early end of epoch: round = current + 10
			base := tr.EpochStartRound()
			if errT := hf.Trigger(tr.MetaEpoch()+1000000, true); errT != nil {
				r.Inconclusive("hardfork Trigger() failed: " + errT.Error())
			}
			reqs = append(reqs, request{kind: "hardfork-self(+10)", r: round + 10, base: base, whilePending: pending, via: "hardfork-self"})
			cs.log("hardfork.Trigger(withEarlyEndOfEpoch) => ForceEpochStart(%d) [current round %d, epoch start round %d, pending=%v]", round+10, round, base, pending)
			r.Count("force kind=hardfork-self(+10)", 1)
			r.Count("force via=hardfork-self", 1)
		}

		// ---- ignored SetProcessed inputs (not a start-of-epoch meta block) must not change anything
		if !pending && rng.Chance(1, 25) {
			e0, s0, p0 := tr.Epoch(), tr.EpochStartRound(), tr.IsEpochStart()
			what := ""
			if rng.Bool() {
				what = "ordinary meta block"
				mt.SetProcessed(&block.MetaBlock{Epoch: epoch + 7, Round: round + 3, Nonce: nonce}, nil)
			} else {
				what = "shard header"
				mt.SetProcessed(&block.Header{Epoch: epoch + 7, Round: round + 3, Nonce: nonce, EpochStartMetaHash: []byte("x")}, nil)
			}
			cs.log("SetProcessed(%s) [must be ignored]", what)
			r.Eval(1)
			r.Count("SetProcessed with a non-start block", 1)
			if tr.Epoch() != e0 || tr.EpochStartRound() != s0 || tr.IsEpochStart() != p0 {
				r.Violation(c.Idx, "set-processed-state", fmt.Sprintf("SetProcessed(%s) changed the trigger: epoch %d->%d startRound %d->%d", what, e0, tr.Epoch(), s0, tr.EpochStartRound()), detail(nil))
			}
		}

		// ---- next round
		inc := uint64(1)
		switch {
		case rng.Chance(1, 6):
			inc = uint64(rng.Range(2, 4))
		case rng.Chance(1, 80):
			inc = uint64(rng.Range(int(cs.per), int(2*cs.per)+3))
		}
		if inc > 1 {
			skippedInEpoch = true
		}
		round += inc
		if rng.Chance(9, 10) {
			nonce++
		}
		prevEpoch := tr.Epoch()
		tr.Update(round, nonce)
		cs.log("Update(round %d, nonce %d)", round, nonce)
		r.Eval(1)
		r.Count("updates", 1)

		if pending {
			if !tr.IsEpochStart() || tr.Epoch() != epoch || tr.EpochStartRound() != baseLenient {
				r.Violation(c.Idx, "pending-state-changed", fmt.Sprintf("Update while the start-of-epoch block is pending changed the trigger: isEpochStart=%v epoch=%d (want %d) startRound=%d (want %d)", tr.IsEpochStart(), tr.Epoch(), epoch, tr.EpochStartRound(), baseLenient), detail(nil))
			}
			pendingLeft--
		} else {
			started := tr.IsEpochStart()
			mustStartNormal := round > baseStrict+cs.per && nonce >= minimumNonceToStartEpoch
			target, clean := cleanTarget()
			cl := class()
			if started {
				r.Count("epoch starts", 1)
				r.Count("epoch starts class="+cl, 1)
				if viaHardfork && len(reqs) > 0 {
					r.Count("epoch starts after hardfork-trigger requests", 1)
				}
				if rolledBack {
					// the chain head is (a descendant of) the committed start-of-epoch block of epoch `epoch`
					r.Count("epoch starts after a rollback onto a start-of-epoch block", 1)
					if tr.Epoch() != epoch+1 {
						r.Violation(c.Idx, "epoch-skip-after-rollback", fmt.Sprintf("the chain was rolled back onto the committed start-of-epoch block of epoch %d (the announced start of epoch %d was abandoned); the next epoch start in round %d announces epoch %d instead of %d", epoch, epoch+1, round, tr.Epoch(), epoch+1), detail(nil))
					}
				} else if tr.Epoch() != prevEpoch+1 || tr.Epoch() != epoch+1 {
					r.Violation(c.Idx, "epoch-skip", fmt.Sprintf("epoch went from %d to %d at the start in round %d", prevEpoch, tr.Epoch(), round), detail(nil))
				}
				if tr.EpochStartRound() != round {
					r.Violation(c.Idx, "start-round-mismatch", fmt.Sprintf("epoch started in round %d but EpochStartRound()=%d", round, tr.EpochStartRound()), detail(nil))
				}
				baseMin := baseStrict
				for _, q := range reqs {
					if q.whilePending {
						baseMin = baseLenient
					}
				}
				length := round - baseMin
				if length < cs.minR {
					r.Violation(c.Idx, "epoch-shorter-than-min class="+cl,
						fmt.Sprintf("min %d rounds/per %d: epoch %d started in round %d, epoch %d starts in round %d (%d rounds later); requests in this epoch: %s", cs.minR, cs.per, epoch, baseMin, epoch+1, round, length, fmtReqs(reqs)),
						detail(map[string]interface{}{"prev_start_round": baseMin, "new_start_round": round}))
				}
				if baseMin != baseStrict && round-baseStrict < cs.minR {
					// only the lenient reading (see Assume) accepts this start
					r.Count("starts fewer than min rounds after EpochStartRound() but not after the trigger round (forced request while the start block was pending; lenient reading)", 1)
					r.Max("lenient reading: largest shortfall against EpochStartRound() (rounds)", int64(cs.minR-(round-baseStrict)))
					strictMu.Lock()
					if strictWitness == nil || len(cs.ops) < strictWitness["n_ops"].(int) {
						strictWitness = map[string]interface{}{"n_ops": len(cs.ops), "case": c.Idx, "min_rounds": cs.minR, "rounds_per_epoch": cs.per,
							"epoch": epoch, "trigger_round": baseLenient, "start_block_round (EpochStartRound())": baseStrict, "next_epoch_start_round": round,
							"requests": fmtReqs(reqs), "last_ops": append([]string{}, cs.tail(14)...)}
					}
					strictMu.Unlock()
				}
				if len(reqs) == 0 && !(round > baseStrict+cs.per) {
					r.Violation(c.Idx, "unforced-start-early", fmt.Sprintf("no forced request, epoch start round %d, rounds per epoch %d, yet the next epoch starts in round %d", baseStrict, cs.per, round), detail(nil))
				}
				if clean && round < target && !(round > baseStrict+cs.per) {
					r.Violation(c.Idx, "forced-start-mismatch", fmt.Sprintf("forced start requested for round %d (inside [start+min, start+per]) but the epoch started in round %d", target, round), detail(nil))
				}
				// shape of the finished epoch
				kinds := map[string]bool{}
				for _, q := range reqs {
					kinds[q.kind] = true
				}
				var ks []string
				for k := range kinds {
					ks = append(ks, k)
				}
				sort.Strings(ks)
				if len(reqs) == 0 && !skippedInEpoch && !delayedInEpoch && !rolledBack {
					r.Trivial()
				} else {
					r.Shape(fmt.Sprintf("req=[%s] delayed=%v skipped=%v rolledback=%v len%s", strings.Join(ks, ","), delayedInEpoch, skippedInEpoch, rolledBack, lenBucket(length, cs.minR, cs.per)))
				}
				r.Max("longest epoch (rounds)", int64(round-baseStrict))
				if r.NeedSample() && len(reqs) > 0 && c.Idx%97 == 0 {
					r.Sample(map[string]interface{}{"min_rounds": cs.minR, "rounds_per_epoch": cs.per, "epoch": epoch + 1, "prev_start_round": baseStrict, "start_round": round, "requests": fmtReqs(reqs), "last_ops": cs.tail(8)})
				}
				// model transition
				epoch = tr.Epoch()
				baseLenient = round
				baseStrict = round
				pending = true
				pendingLeft = 0
				if rng.Chance(3, 10) {
					pendingLeft = rng.Range(1, 4)
					delayedInEpoch = true
				} else {
					delayedInEpoch = false
				}
				skippedInEpoch = false
				rolledBack = false
				// 1 in 8 announced epoch starts is abandoned: rollback onto the last committed start-of-epoch block
				abandon = lastStart != nil && rng.Chance(1, 8)
				if abandon {
					pendingLeft = rng.Intn(4)
				}
				prevReqs = reqs
				reqs = nil
			} else {
				if tr.Epoch() != prevEpoch {
					r.Violation(c.Idx, "epoch-changed-without-start", fmt.Sprintf("Epoch() went from %d to %d without IsEpochStart", prevEpoch, tr.Epoch()), detail(nil))
				}
				if mustStartNormal {
					key := "unforced-start-late"
					if len(reqs) > 0 {
						key = "start-late class=" + cl
					}
					r.Violation(c.Idx, key, fmt.Sprintf("epoch start round %d, rounds per epoch %d, round %d nonce %d: no epoch start; requests: %s", baseStrict, cs.per, round, nonce, fmtReqs(reqs)), detail(nil))
				} else if clean && round >= target && nonce >= minimumNonceToStartEpoch {
					r.Violation(c.Idx, "forced-start-mismatch", fmt.Sprintf("forced start requested for round %d (inside [start+min, start+per]) but no start in round %d", target, round), detail(nil))
				}
				if nonce < minimumNonceToStartEpoch && (round > baseStrict+cs.per) {
					r.Count("starts held back by the nonce<4 guard", 1)
				}
			}
		}

		// ---- start-of-epoch block
		if pending && pendingLeft <= 0 && abandon {
			// the announced start of epoch `epoch` is abandoned: its start-of-epoch block never gets committed and
			// the chain is rolled back onto the committed start-of-epoch block of the previous epoch
			errR := mt.RevertStateToBlock(lastStart)
			cs.log("RevertStateToBlock(start-of-epoch meta block epoch %d round %d) [announced start of epoch %d in round %d abandoned]", lastStart.Epoch, lastStart.Round, epoch, baseLenient)
			r.Eval(1)
			r.Count("rollbacks onto the committed start-of-epoch block while the next epoch start was pending", 1)
			if errR != nil {
				r.Violation(c.Idx, "rollback-error", fmt.Sprintf("RevertStateToBlock(start-of-epoch block of epoch %d): %v", lastStart.Epoch, errR), detail(nil))
			}
			epoch = lastStart.Epoch
			baseStrict = lastStart.Round
			baseLenient = lastStart.Round
			pending = false
			abandon = false
			rolledBack = true
			delayedInEpoch = false
			// Requests of the re-entered epoch (consumed by the abandoned start) and requests made while that start
			// was pending: the property does not say which of them are still in force, so all of them count as
			// "a request was made" and none of them as an exact target.
			all := append(append([]request{}, prevReqs...), reqs...)
			for k := range all {
				all[k].whilePending = true
			}
			reqs = all
		}
		if pending && pendingLeft <= 0 {
			mb := &block.MetaBlock{Epoch: epoch, Round: round, Nonce: nonce,
				EpochStart: block.EpochStart{LastFinalizedHeaders: []block.EpochStartShardData{{ShardID: 0}}}}
			mt.SetProcessed(mb, nil)
			cs.log("SetProcessed(start-of-epoch meta block epoch %d round %d)", epoch, round)
			r.Eval(1)
			r.Count("start-of-epoch blocks processed", 1)
			if round != baseLenient {
				r.Count("start-of-epoch blocks delayed", 1)
			}
			if tr.IsEpochStart() || tr.Epoch() != epoch || tr.EpochStartRound() != round {
				r.Violation(c.Idx, "set-processed-state", fmt.Sprintf("after SetProcessed(epoch %d, round %d): isEpochStart=%v epoch=%d startRound=%d", epoch, round, tr.IsEpochStart(), tr.Epoch(), tr.EpochStartRound()), detail(nil))
			}
			pending = false
			baseStrict = round
			lastStart = &block.MetaBlock{Epoch: epoch, Round: round, Nonce: nonce,
				EpochStart: block.EpochStart{LastFinalizedHeaders: []block.EpochStartShardData{{ShardID: 0}}}}
			// requests made while pending stay in reqs (they belong to the new epoch)
		}
	}
}

func minU(a, b uint64) uint64 {
	if a < b {
		return a
	}
	return b
}

func fmtReqs(reqs []request) string {
	if len(reqs) == 0 {
		return "none"
	}
	var s []string
	for _, q := range reqs {
		p := ""
		if q.whilePending {
			p = " while-pending"
		}
		s = append(s, fmt.Sprintf("Force(%d)[%s%s, epoch start round then %d]", q.r, q.kind, p, q.base))
	}
	return strings.Join(s, "; ")
}
