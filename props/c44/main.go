// C44 — peer eviction keeps connections within quotas.
// Monitor shape: invariant check (INV) on the result of the real listsSharder.ComputeEvictionList for
// random valid sharding configurations and random peer lists; peer categories come from the harness's
// own generation record (not from the sharder's classification), preferred peers are registered in the
// real core/peersholder.
package main

import (
	"fmt"
	"sort"
	"strings"

	logger "github.com/ElrondNetwork/elrond-go-logger"
	"github.com/ElrondNetwork/elrond-go/config"
	"github.com/ElrondNetwork/elrond-go/core"
	"github.com/ElrondNetwork/elrond-go/core/peersholder"
	"github.com/ElrondNetwork/elrond-go/p2p/libp2p/networksharding"
	p2pmock "github.com/ElrondNetwork/elrond-go/p2p/mock"
	"github.com/libp2p/go-libp2p-core/peer"
	"verif/internal/vk"
)

const (
	catIntraV = iota
	catCrossV
	catIntraO
	catCrossO
	catFullHist
	catUnknown
	catSeeder
	numCats
)

var catNames = []string{"intra-validator", "cross-validator", "intra-observer", "cross-observer", "full-history-observer", "unknown", "seeder"}

type peerRec struct {
	id        peer.ID
	cat       int // category by the documented rule
	preferred bool
	info      core.P2PPeerInfo
	isSeeder  bool
}

func newPeerID(rng *vk.Rand) peer.ID {
	b := rng.Bytes(34)
	b[0], b[1] = 0x12, 0x20 // sha2-256 multihash header, like real peer ids
	return peer.ID(b)
}

func main() {
	logger.SetLogLevel("*:NONE")
	r := vk.Start("C44")
	r.Rule("case = (sharding config, self shard, peer list): quotas 1..6 for validators/observers, 0..3 seeders, 0..3 full-history, target = sum + 1..6 (min 5) so that the constructor accepts; 0..80 unique peers drawn from 8 kinds (intra/cross validator, intra/cross observer, intra/cross full-history observer, unknown, seeder) under a random skew, each preferred with probability 0, 1/8 or 1/3 (seeders included). Non-trivial = something evicted or a preferred peer present. Shape = per-category relation of the count to its quota (0/</=/>), preferred-seeder present, evicted or not.")
	r.Assume("peer categories are those of the documented rule: a seeder is a peer whose id appears in the seeder address list; a full-history observer of another shard counts as cross-shard observer; with MaxFullHistoryObservers == 0 an intra-shard full-history observer counts as intra-shard observer",
		"quota cascade: capacity left unused by intra validators flows to cross validators, then intra observers, cross observers and unknown peers; seeders and full-history observers are strict",
		"input peer lists hold unique ids and do not contain the node itself")
	r.MinShapes(300)

	n := r.N(60000, 1200000)
	r.Parallel(n, func(c *vk.Case) {
		rng := c.Rng
		sh := config.ShardingConfig{
			MaxIntraShardValidators: uint32(1 + rng.Intn(6)),
			MaxCrossShardValidators: uint32(1 + rng.Intn(6)),
			MaxIntraShardObservers:  uint32(1 + rng.Intn(4)),
			MaxCrossShardObservers:  uint32(1 + rng.Intn(4)),
			MaxSeeders:              uint32(rng.Intn(4)),
			MaxFullHistoryObservers: uint32(rng.Intn(4)),
			Type:                    "ListsSharder",
		}
		sum := sh.MaxIntraShardValidators + sh.MaxCrossShardValidators + sh.MaxIntraShardObservers + sh.MaxCrossShardObservers + sh.MaxSeeders + sh.MaxFullHistoryObservers
		sh.TargetPeerCount = sum + uint32(1+rng.Intn(6))
		if sh.TargetPeerCount < 5 {
			sh.TargetPeerCount = 5
		}
		maxUnknown := int(sh.TargetPeerCount - sum)

		shardIDs := []uint32{0, 1, 2, core.MetachainShardId}
		selfShard := shardIDs[rng.Intn(len(shardIDs))]
		otherShard := func() uint32 {
			for {
				s := shardIDs[rng.Intn(len(shardIDs))]
				if s != selfShard {
					return s
				}
			}
		}
		self := newPeerID(rng)
		selfType := core.ValidatorPeer
		if rng.Bool() {
			selfType = core.ObserverPeer
		}
		infos := map[core.PeerID]core.P2PPeerInfo{core.PeerID(self): {PeerType: selfType, ShardID: selfShard}}

		// skewed kind weights so that single categories overflow while others stay empty
		weights := make([]int, 8)
		for i := range weights {
			weights[i] = []int{0, 1, 1, 2, 5}[rng.Intn(5)]
		}
		wsum := 0
		for _, w := range weights {
			wsum += w
		}
		if wsum == 0 {
			weights[rng.Intn(8)] = 1
			wsum = 1
		}
		prefNum := []int{0, 1, 3}[rng.Intn(3)] // out of 8 (1/8) resp. 9 (1/3)
		prefDen := 8
		if prefNum == 3 {
			prefDen = 9
		}
		count := rng.Intn(81)
		if rng.Chance(1, 4) {
			count = rng.Intn(12)
		}
		peers := make([]*peerRec, 0, count)
		var seederAddrs []string
		var prefKeys [][]byte
		for i := 0; i < count; i++ {
			p := &peerRec{id: newPeerID(rng)}
			k := rng.Intn(wsum)
			kind := 0
			for kind = 0; kind < 8; kind++ {
				if k < weights[kind] {
					break
				}
				k -= weights[kind]
			}
			switch kind {
			case 0:
				p.info = core.P2PPeerInfo{PeerType: core.ValidatorPeer, ShardID: selfShard}
				p.cat = catIntraV
			case 1:
				p.info = core.P2PPeerInfo{PeerType: core.ValidatorPeer, ShardID: otherShard()}
				p.cat = catCrossV
			case 2:
				p.info = core.P2PPeerInfo{PeerType: core.ObserverPeer, ShardID: selfShard}
				p.cat = catIntraO
			case 3:
				p.info = core.P2PPeerInfo{PeerType: core.ObserverPeer, ShardID: otherShard()}
				p.cat = catCrossO
			case 4:
				p.info = core.P2PPeerInfo{PeerType: core.ObserverPeer, PeerSubType: core.FullHistoryObserver, ShardID: selfShard}
				p.cat = catFullHist
				if sh.MaxFullHistoryObservers == 0 {
					p.cat = catIntraO
				}
			case 5:
				p.info = core.P2PPeerInfo{PeerType: core.ObserverPeer, PeerSubType: core.FullHistoryObserver, ShardID: otherShard()}
				p.cat = catCrossO
			case 6:
				p.info = core.P2PPeerInfo{PeerType: core.UnknownPeer, ShardID: shardIDs[rng.Intn(4)]}
				p.cat = catUnknown
			default:
				// a seeder also advertises some identity; the seeder list wins
				p.info = core.P2PPeerInfo{PeerType: []core.P2PPeerType{core.UnknownPeer, core.ValidatorPeer, core.ObserverPeer}[rng.Intn(3)], ShardID: shardIDs[rng.Intn(4)]}
				p.cat = catSeeder
				p.isSeeder = true
				seederAddrs = append(seederAddrs, fmt.Sprintf("/ip4/10.0.%d.%d/tcp/%d/p2p/%s", rng.Intn(256), rng.Intn(256), 1000+rng.Intn(9000), core.PeerID(p.id).Pretty()))
			}
			if prefNum > 0 && rng.Chance(prefNum, prefDen) {
				p.preferred = true
			}
			infos[core.PeerID(p.id)] = p.info
			peers = append(peers, p)
		}
		// seeders that are not connected
		for i := rng.Intn(3); i > 0; i-- {
			seederAddrs = append(seederAddrs, "/ip4/10.1.1.1/tcp/1/p2p/"+core.PeerID(newPeerID(rng)).Pretty())
		}

		// the real preferred-peers holder
		for i, p := range peers {
			if p.preferred {
				prefKeys = append(prefKeys, []byte(fmt.Sprintf("pubkey-%d", i)))
			}
		}
		holder := peersholder.NewPeersHolder(prefKeys)
		for i, p := range peers {
			if p.preferred {
				holder.Put([]byte(fmt.Sprintf("pubkey-%d", i)), core.PeerID(p.id), p.info.ShardID)
			}
		}
		for _, p := range peers {
			if holder.Contains(core.PeerID(p.id)) != p.preferred {
				r.Inconclusive("preferred peers holder does not reflect the generated preferred set")
				return
			}
		}

		ls, err := networksharding.NewListsSharder(networksharding.ArgListsSharder{
			PeerResolver:         &p2pmock.PeerShardResolverStub{GetPeerInfoCalled: func(p core.PeerID) core.P2PPeerInfo { return infos[p] }},
			SelfPeerId:           self,
			P2pConfig:            config.P2PConfig{Sharding: sh},
			PreferredPeersHolder: holder,
		})
		if err != nil {
			r.Violation(c.Idx, "constructor-rejected-valid-config", fmt.Sprintf("NewListsSharder(%+v): %v", sh, err), map[string]interface{}{"config": sh})
			return
		}
		ls.SetSeeders(seederAddrs)

		input := make([]peer.ID, len(peers))
		byID := map[peer.ID]*peerRec{}
		for i, p := range peers {
			input[i] = p.id
			byID[p.id] = p
		}
		inputCopy := append([]peer.ID{}, input...)
		ev := ls.ComputeEvictionList(input)
		r.Eval(1)

		describe := func() map[string]interface{} {
			var list []string
			for _, p := range peers {
				s := catNames[p.cat]
				if p.preferred {
					s += "+preferred"
				}
				list = append(list, s)
			}
			var evs []string
			for _, e := range ev {
				if p, ok := byID[e]; ok {
					s := catNames[p.cat]
					if p.preferred {
						s += "+preferred"
					}
					evs = append(evs, s)
				} else {
					evs = append(evs, "?"+core.PeerID(e).Pretty())
				}
			}
			return map[string]interface{}{"config": sh, "self_shard": selfShard, "peers": list, "evicted": evs}
		}
		cfgStr := fmt.Sprintf("target=%d intraV=%d crossV=%d intraO=%d crossO=%d seeders=%d fullHist=%d", sh.TargetPeerCount, sh.MaxIntraShardValidators, sh.MaxCrossShardValidators, sh.MaxIntraShardObservers, sh.MaxCrossShardObservers, sh.MaxSeeders, sh.MaxFullHistoryObservers)

		for i := range input {
			if input[i] != inputCopy[i] {
				r.Violation(c.Idx, "input-modified", "ComputeEvictionList reordered or changed its argument", describe())
				break
			}
		}

		evicted := map[peer.ID]bool{}
		for _, e := range ev {
			p, ok := byID[e]
			if !ok {
				r.Violation(c.Idx, "evicted-not-in-input", fmt.Sprintf("%s: evicted id %s is not in the input list", cfgStr, core.PeerID(e).Pretty()), describe())
				continue
			}
			if evicted[e] {
				r.Violation(c.Idx, "evicted-twice", fmt.Sprintf("%s: %s peer proposed twice", cfgStr, catNames[p.cat]), describe())
			}
			evicted[e] = true
			if p.preferred {
				r.Count("preferred_evicted."+catNames[p.cat], 1)
				r.Violation(c.Idx, "preferred-evicted class="+catNames[p.cat], fmt.Sprintf("%s: a preferred peer (%s) is proposed for eviction; %d peers in the list", cfgStr, catNames[p.cat], len(peers)), describe())
			}
		}

		var have, rem [numCats]int
		remTotal, prefTotal, prefSeeders := 0, 0, 0
		for _, p := range peers {
			if p.preferred {
				prefTotal++
				if p.isSeeder {
					prefSeeders++
				}
				continue
			}
			have[p.cat]++
			if !evicted[p.id] {
				rem[p.cat]++
				remTotal++
			}
		}
		if remTotal > int(sh.TargetPeerCount) {
			r.Violation(c.Idx, "remaining-exceeds-target", fmt.Sprintf("%s: %d non-preferred peers remain", cfgStr, remTotal), describe())
		}
		if rem[catSeeder] > int(sh.MaxSeeders) {
			r.Violation(c.Idx, "bound-exceeded cat=seeder", fmt.Sprintf("%s: %d non-preferred seeders remain", cfgStr, rem[catSeeder]), describe())
		}
		if rem[catFullHist] > int(sh.MaxFullHistoryObservers) {
			r.Violation(c.Idx, "bound-exceeded cat=full-history-observer", fmt.Sprintf("%s: %d full-history observers remain", cfgStr, rem[catFullHist]), describe())
		}
		c1 := rem[catIntraV]
		c2 := c1 + rem[catCrossV]
		c3 := c2 + rem[catIntraO]
		c4 := c3 + rem[catCrossO]
		c5 := c4 + rem[catUnknown]
		b1 := int(sh.MaxIntraShardValidators)
		b2 := b1 + int(sh.MaxCrossShardValidators)
		b3 := b2 + int(sh.MaxIntraShardObservers)
		b4 := b3 + int(sh.MaxCrossShardObservers)
		b5 := b4 + maxUnknown
		for _, chk := range []struct {
			name string
			c, b int
		}{{"intra-validator", c1, b1}, {"cross-validator", c2, b2}, {"intra-observer", c3, b3}, {"cross-observer", c4, b4}, {"unknown", c5, b5}} {
			if chk.c > chk.b {
				r.Violation(c.Idx, "bound-exceeded cat="+chk.name, fmt.Sprintf("%s: cumulative remaining up to %s is %d, cascade bound %d (remaining per category %v)", cfgStr, chk.name, chk.c, chk.b, rem), describe())
			}
		}

		r.Count("peers", len(peers))
		r.Count("evicted", len(ev))
		r.Count("preferred_peers", prefTotal)
		r.Count("preferred_seeders", prefSeeders)
		r.Max("max_peers", int64(len(peers)))
		if len(ev) == 0 && prefTotal == 0 {
			r.Trivial()
			return
		}
		quota := []int{b1, int(sh.MaxCrossShardValidators), int(sh.MaxIntraShardObservers), int(sh.MaxCrossShardObservers), int(sh.MaxFullHistoryObservers), maxUnknown, int(sh.MaxSeeders)}
		var sig strings.Builder
		for k := 0; k < numCats; k++ {
			switch {
			case have[k] == 0:
				sig.WriteByte('0')
			case have[k] < quota[k]:
				sig.WriteByte('<')
			case have[k] == quota[k]:
				sig.WriteByte('=')
			default:
				sig.WriteByte('>')
			}
		}
		evCats := map[string]bool{}
		for e := range evicted {
			evCats[catNames[byID[e].cat][:3]+catNames[byID[e].cat][len(catNames[byID[e].cat])-3:]] = true
		}
		var evl []string
		for k := range evCats {
			evl = append(evl, k)
		}
		sort.Strings(evl)
		r.Shape(fmt.Sprintf("%s prefSeeder=%v pref=%v ev=%s", sig.String(), prefSeeders > 0, prefTotal > 0, strings.Join(evl, ",")))
		if r.NeedSample() && len(peers) >= 6 && len(peers) <= 12 && len(ev) > 0 {
			r.Sample(describe())
		}
	})
	r.Finish()
}
