package main

// Phase "state sync through the accounts syncer": the production entry point for syncing a state trie for a root
// hash is userAccountsSyncer.SyncAccounts(rootHash) (data/syncer): it runs the trie syncers of data/trie for the
// main trie and then, concurrently under a throttler, for the data trie of every account found in the main trie.
// The harness builds a state (main trie of marshalled user accounts, 2-5 of them with their own data trie),
// serves it through the same simulated network / real receive path / real cacher as the other phases and applies
// the completeness oracle to the WHOLE state: SyncAccounts == nil  =>  every node reachable from the main root and
// from every account's data-trie root is in the destination storage with the source bytes, and each of those tries
// recreates with its root and leaves.
// Schedules and faults: none / one destination-DB Put of a node of one data trie fails once while the network holds
// the other data tries back until then (so they complete after the failure) / the same fault with a throttler of
// 1-2 goroutines and no hold (completion order = enumeration order) / (first-version syncer only) the peers never
// serve one data trie so that its syncer ends with ErrTimeIsOut while another data trie trickles in more slowly.

import (
	"fmt"
	"math/big"
	"sort"
	"sync/atomic"
	"time"

	"github.com/ElrondNetwork/elrond-go/core/throttler"
	"github.com/ElrondNetwork/elrond-go/data/state"
	"github.com/ElrondNetwork/elrond-go/data/syncer"
	"github.com/ElrondNetwork/elrond-go/data/trie"
	"github.com/ElrondNetwork/elrond-go/process/interceptors/processor"
	"github.com/ElrondNetwork/elrond-go/storage/memorydb"
	"verif/internal/vk"
)

const classAccounts = " class=accounts-syncer"

var acctModeNames = []string{"no-fault", "data-trie-put-fault+others-held-back", "data-trie-put-fault+throttled", "data-trie-never-served(timeout)+other-trickles"}

// finishSource commits s.tr and fills the harness-side node maps
func finishSource(s *source) {
	if err := s.tr.Commit(); err != nil {
		panic(err)
	}
	s.root, _ = s.tr.RootHash()
	s.root = append([]byte{}, s.root...)
	var err error
	s.nodes, s.children, err = reach(s.db, s.root)
	if err != nil {
		panic(err)
	}
	for _, b := range s.nodes {
		if len(b) > s.maxNode {
			s.maxNode = len(b)
		}
		switch b[len(b)-1] {
		case tBranch:
			s.numBranch++
		case tExt:
			s.numExt++
		case tLeaf:
			s.numLeaf++
		}
	}
}

// flatSource: a trie whose root is a branch with n leaf children (one-byte keys that differ in the low nibble)
func flatSource(rng *vk.Rand, n int) *source {
	s := &source{db: memorydb.New(), model: map[string][]byte{}}
	s.tr = newTrieOn(s.db)
	hi := byte(rng.Intn(16)) << 4
	for i := 0; i < n; i++ {
		k := []byte{hi | byte(i)}
		v := rng.Bytes(1 + rng.Intn(40))
		if err := s.tr.Update(append([]byte{}, k...), append([]byte{}, v...)); err != nil {
			panic(err)
		}
		s.model[string(k)] = v
	}
	finishSource(s)
	return s
}

// buildMainTrie: user accounts (real state.userAccount marshalled with the node's marshalizer); owners[i] is the data
// trie of account i or nil
func buildMainTrie(rng *vk.Rand, owners []*source, flat bool) *source {
	s := &source{db: memorydb.New(), model: map[string][]byte{}}
	s.tr = newTrieOn(s.db)
	suffix := rng.Bytes(1 + rng.Intn(3))
	for i, o := range owners {
		var addr []byte
		switch {
		case flat:
			addr = append(rng.Bytes(31), byte(i)) // all leaves directly under the root branch
			addr[30] = 0x77
		case rng.Bool():
			addr = append(rng.Bytes(32-len(suffix)), suffix...)
		default:
			addr = rng.Bytes(32)
		}
		acc, err := state.NewUserAccount(addr)
		if err != nil {
			panic(err)
		}
		acc.IncreaseNonce(uint64(rng.Intn(1000)))
		_ = acc.AddToBalance(big.NewInt(int64(rng.Intn(1 << 30))))
		if o != nil {
			acc.SetRootHash(append([]byte{}, o.root...))
		}
		if rng.Chance(1, 4) {
			acc.SetCodeHash(rng.Bytes(32))
		}
		buff, err := msh.Marshal(acc)
		if err != nil {
			panic(err)
		}
		if err = s.tr.Update(append([]byte{}, addr...), append([]byte{}, buff...)); err != nil {
			panic(err)
		}
		s.model[string(addr)] = buff
	}
	finishSource(s)
	return s
}

type acctParams struct {
	version    int
	mode       int
	throttle   int32
	hardCap    int
	cacherKind int
	cacherCap  int
	timeout    time.Duration
	sched      schedParams
}

func runAccounts(r *vk.Run, c *vk.Case, rng *vk.Rand, mainTr *source, dataTries []*source, junk *source, p acctParams) {
	all := append([]*source{mainTr}, dataTries...)
	w, maxNode := newWorld(all, junk.nodes)
	w.cacher = makeCacher(syncParams{cacherKind: p.cacherKind, cacherCap: p.cacherCap}, maxNode)
	proc, err := processor.NewTrieNodesInterceptorProcessor(w.cacher)
	if err != nil {
		panic(err)
	}
	w.proc = proc

	dst := &recDB{inner: memorydb.New()}
	// the data trie whose sync is made to fail, and the node sets the targeted schedules work on
	victim := dataTries[rng.Intn(len(dataTries))]
	others := map[string]bool{} // nodes that belong only to the OTHER data tries
	for _, t := range dataTries {
		if t == victim {
			continue
		}
		for h := range t.nodes {
			if _, ok := victim.nodes[h]; ok {
				continue
			}
			if _, ok := mainTr.nodes[h]; ok {
				continue
			}
			others[h] = true
		}
	}
	victimOnly := map[string]bool{}
	var victimList []string
	for h := range victim.nodes {
		if _, ok := mainTr.nodes[h]; ok {
			continue
		}
		shared := false
		for _, t := range dataTries {
			if t != victim {
				if _, ok := t.nodes[h]; ok {
					shared = true
				}
			}
		}
		if !shared {
			victimOnly[h] = true
			victimList = append(victimList, h)
		}
	}
	sort.Strings(victimList)
	if (p.mode == 1 || p.mode == 2) && len(victimList) > 0 {
		dst.failPutKey = victimList[rng.Intn(len(victimList))]
	}

	var forceFair int32 // set at the virtual deadline: from then on every request is served
	heldRounds, lag, released := 0, 0, false
	trickled := map[string]bool{}
	switch p.mode {
	case 1:
		// the other data tries are held back until the write fault has been injected (bounded), so that they complete
		// after the failure of the victim's sync
		w.gate = func(reqs []string) []string {
			if released || atomic.LoadInt32(&forceFair) == 1 {
				return reqs
			}
			if atomic.LoadInt64(&dst.putFaults) > 0 {
				lag++
			}
			out := reqs[:0:0]
			held := false
			for _, h := range reqs {
				if others[h] {
					held = true
					continue
				}
				out = append(out, h)
			}
			if held {
				heldRounds++
				w.kind("data-trie-held-back")
			}
			if lag > 3 || heldRounds > 3000 {
				released = true
			}
			return out
		}
	case 3:
		// the victim data trie is never served; of the nodes below the roots of the other data tries only ONE new
		// node is served in a round (the syncers ask again at their next poll)
		roots := map[string]bool{}
		for _, t := range dataTries {
			roots[string(t.root)] = true
		}
		w.gate = func(reqs []string) []string {
			if atomic.LoadInt32(&forceFair) == 1 {
				return reqs
			}
			out := reqs[:0:0]
			newOne := false
			for _, h := range reqs {
				switch {
				case victimOnly[h]:
					w.kind("data-trie-never-served")
					continue
				case others[h] && !roots[h] && !trickled[h]:
					if newOne {
						w.kind("trickle")
						continue
					}
					newOne = true
					trickled[h] = true
				}
				out = append(out, h)
			}
			return out
		}
	}

	tsm, err := trie.NewTrieStorageManagerWithoutPruning(dst)
	if err != nil {
		panic(err)
	}
	thr, err := throttler.NewNumGoRoutinesThrottler(p.throttle)
	if err != nil {
		panic(err)
	}
	net := newSimNet()
	us, err := syncer.NewUserAccountsSyncer(syncer.ArgsNewUserAccountsSyncer{
		ArgsNewBaseAccountsSyncer: syncer.ArgsNewBaseAccountsSyncer{
			Hasher: hsh, Marshalizer: msh, TrieStorageManager: tsm, RequestHandler: net, Timeout: p.timeout,
			Cacher: w.cacher, MaxTrieLevelInMemory: 5, MaxHardCapForMissingNodes: p.hardCap, TrieSyncerVersion: p.version,
		},
		ShardId: 0, Throttler: thr,
	})
	if err != nil {
		panic(err)
	}

	stop := make(chan struct{})
	abandon := make(chan struct{})
	schedDone := make(chan struct{})
	schedRng := rng.Fork()
	var schedPanic string
	go func() {
		defer close(schedDone)
		pp, v, st := vk.Guard(func() {
			// SyncAccounts owns its context: at the virtual deadline the network turns fair and prompt instead
			w.runScheduler(schedRng, net, p.sched, stop, func() { atomic.StoreInt32(&forceFair, 1) }, func() { close(abandon) })
		})
		if pp {
			schedPanic = fmt.Sprintf("%v\n%s", v, st)
		}
	}()

	var o syncOutcome
	done := make(chan struct{})
	go func() {
		defer close(done)
		o.panicked, _, o.stack = vk.Guard(func() {
			o.err = us.SyncAccounts(append([]byte{}, mainTr.root...))
		})
	}()
	hung := false
	select {
	case <-done:
	case <-abandon:
		hung = true
	}
	close(stop)
	<-schedDone

	vn := fmt.Sprintf("v%d", p.version)
	r.Count("accounts_syncs_started_"+vn, 1)
	r.Count("accounts_syncs_mode:"+acctModeNames[p.mode], 1)
	if hung {
		r.Count("accounts_sync_inconclusive:no-return", 1)
		return
	}
	r.Count("accounts_data_tries", len(dataTries))
	r.Count("deliveries", int(w.nDeliv))
	r.Count("deliveries_accepted_into_cacher", int(w.nAccepted))
	r.Count("deliveries_rejected_by_receive_path", int(w.nRejected))
	r.Count("request_calls", int(net.calls))
	r.Count("requested_hashes", int(net.hashes))
	r.Count("db_dst_puts", int(dst.puts))
	r.Count("db_dst_gets", int(dst.gets))
	r.Count("accounts_injected_write_faults", int(dst.putFaults))
	r.Count("accounts_rounds_with_a_data_trie_held_back", heldRounds)
	r.Eval(int(w.nDeliv))

	baseDetail := func() map[string]interface{} {
		roots := []string{}
		for _, t := range dataTries {
			roots = append(roots, vk.Hex(t.root))
		}
		return map[string]interface{}{
			"phase": "userAccountsSyncer.SyncAccounts", "syncer_version": p.version, "mode": acctModeNames[p.mode], "throttler": p.throttle,
			"timeout": p.timeout.String(), "cacher": cacherNames[p.cacherKind], "hard_cap": p.hardCap, "sched": fmt.Sprintf("%+v", p.sched),
			"main_root": vk.Hex(mainTr.root), "accounts": len(mainTr.model), "data_trie_roots": roots, "victim_data_trie": vk.Hex(victim.root),
			"injected_faults": append([]string{}, dst.faultedKeys...), "sync_result": fmt.Sprint(o.err),
		}
	}
	if schedPanic != "" {
		d := baseDetail()
		d["stack"] = schedPanic
		r.Violation(c.Idx, "panic-in-harness-scheduler", "the harness scheduler panicked (harness bug or panic outside the guarded receive path)", d)
	}
	if o.panicked {
		d := baseDetail()
		d["stack"] = o.stack
		r.Violation(c.Idx, "panic-in-syncer:"+vk.TopFrame(o.stack)+classAccounts, "SyncAccounts panicked at "+vk.TopFrame(o.stack), d)
		return
	}
	if len(dst.bad) > 0 {
		d := baseDetail()
		d["entries"] = dst.bad
		r.Violation(c.Idx, "foreign-node-stored-under-wrong-hash", "syncer wrote a DB entry whose key is not the hash of its value: "+dst.bad[0], d)
	}
	if o.err != nil {
		// an error is a defined outcome (write fault reported, time out, ...): nothing is claimed about the storage
		r.Eval(1)
		r.Count("accounts_sync_returned_error_"+vn+":"+o.err.Error(), 1)
		if dst.putFaults > 0 || p.mode == 3 {
			r.Shape(fmt.Sprintf("accounts v%d %s -> error reported", p.version, acctModeNames[p.mode]))
		}
		return
	}
	r.Count("accounts_syncs_completed_"+vn, 1)
	if dst.putFaults > 0 {
		r.Count("accounts_syncs_completed_nil_after_injected_write_fault_"+vn, 1)
	}
	for i, t := range all {
		which := "main trie"
		if i > 0 {
			which = fmt.Sprintf("data trie %d of %d", i, len(dataTries))
		}
		tt := t
		checkSyncedClass(r, c, dst, t, classAccounts, "SyncAccounts", func() map[string]interface{} {
			d := baseDetail()
			d["trie"] = which
			d["root"] = vk.Hex(tt.root)
			d["leaves"] = len(tt.model)
			d["source_nodes"] = len(tt.nodes)
			d["is_victim_data_trie"] = tt == victim
			return d
		})
	}
	r.Shape(fmt.Sprintf("accounts v%d %s data%d thr%d %s cap%d [%s]", p.version, acctModeNames[p.mode], len(dataTries), bucket(int(p.throttle)),
		cacherNames[p.cacherKind], bucket(p.hardCap), hostileKinds(w)))
	if r.NeedSample() {
		r.Sample(map[string]interface{}{
			"case": c.Idx, "phase": "accounts syncer", "syncer_version": p.version, "mode": acctModeNames[p.mode], "accounts": len(mainTr.model),
			"data_tries": len(dataTries), "main_nodes": len(mainTr.nodes), "throttler": p.throttle, "deliveries": w.nDeliv,
			"result": "SyncAccounts nil; oracle applied to the main trie and every data trie",
		})
	}
}

// accountsCase generates one case of this phase; timeoutMode selects the (slow, first-version syncer only)
// never-served-data-trie schedule
func accountsCase(r *vk.Run, c *vk.Case, timeoutMode bool) {
	rng := c.Rng
	p := acctParams{version: 2, timeout: 60 * time.Second}
	if rng.Chance(1, 3) {
		p.version = 1 // polls once per second (no hook on the syncers SyncAccounts creates): keep the tries shallow
	}
	var dataTries []*source
	nData := 2 + rng.Intn(4)
	if timeoutMode {
		p.version, p.mode, p.timeout = 1, 3, 3*time.Second
		nData = 2 + rng.Intn(2)
		for i := 0; i < nData; i++ {
			dataTries = append(dataTries, flatSource(rng, 4+rng.Intn(2)))
		}
	} else {
		for i := 0; i < nData; i++ {
			n := 1 + rng.Intn(24)
			if p.version == 1 {
				n = 1 + rng.Intn(6)
			}
			dataTries = append(dataTries, buildSource(rng, n, false, false))
		}
		p.mode = []int{0, 1, 1, 2}[rng.Intn(4)]
	}
	// accounts: one per data trie, sometimes a second account with the same data trie, some without data trie
	owners := append([]*source{}, dataTries...)
	if !timeoutMode {
		if rng.Chance(1, 4) {
			owners = append(owners, dataTries[rng.Intn(len(dataTries))])
		}
		for i, n := 0, rng.Intn(5); i < n; i++ {
			owners = append(owners, nil)
		}
		perm := rng.Perm(len(owners))
		sh := make([]*source, len(owners))
		for i, j := range perm {
			sh[i] = owners[j]
		}
		owners = sh
	}
	mainTr := buildMainTrie(rng, owners, timeoutMode)
	junk := buildForeign(rng, dataTries[0], 3+rng.Intn(30))
	r.Count("source_tries", 1+len(dataTries))
	r.Count("source_nodes_total", len(mainTr.nodes))

	switch p.mode {
	case 1:
		p.throttle = int32(len(dataTries) + rng.Intn(8)) // every data trie sync starts at once
	case 2:
		p.throttle = int32(1 + rng.Intn(2))
	default:
		p.throttle = int32([]int{1, 2, 4, 16}[rng.Intn(4)])
	}
	p.hardCap = []int{1, 3, 20, 500, 10000}[rng.Intn(5)]
	p.cacherKind = []int{0, 2}[rng.Intn(2)]
	p.cacherCap = 1 + rng.Intn(8)
	p.sched = schedParams{
		maxDrops: rng.Intn(3), maxDelay: rng.Intn(3), dupPct: []int{0, 10, 50}[rng.Intn(3)],
		junkPerRnd: []int{0, 2, 6}[rng.Intn(3)], aheadPct: []int{0, 20, 60}[rng.Intn(3)],
		nonCanonPct: []int{0, 10}[rng.Intn(2)], lateDupPct: []int{0, 20}[rng.Intn(2)],
		workers: 1 + rng.Intn(3), maxRounds: 6000,
	}
	if p.version == 1 {
		// every ignored request costs the first-version syncer a one-second poll
		p.sched.maxDrops, p.sched.maxDelay, p.sched.nonCanonPct = 0, 0, 0
		p.sched.aheadPct = []int{20, 60}[rng.Intn(2)]
	}
	if timeoutMode {
		// nothing may reach the cacher unrequested here: junk built from the genuine nodes (late duplicates, non-canonical
		// re-encodings that keep the hash) would serve the victim trie after all
		p.sched.aheadPct, p.sched.dupPct, p.sched.junkPerRnd, p.sched.lateDupPct = 0, 0, 0, 0
		p.throttle = 8
	}
	runAccounts(r, c, rng.Fork(), mainTr, dataTries, junk, p)
}
