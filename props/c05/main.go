// C05 — trie synchronisation reconstructs exactly the requested trie under hostile delivery schedules.
//
// Monitor shape: a source trie is committed in DB_src; both real syncers (trie.NewTrieSyncer,
// trie.NewDoubleListTrieSyncer) sync its root into an empty (or partially populated) DB_dst through a
// real interceptor cacher. The RequestHandler is the harness's simulated network (net.go): a scheduler
// goroutine answers through the REAL receive path (NewInterceptedTrieNode -> CheckValidity ->
// TrieNodeInterceptorProcessor.Validate/Save) with delays, drops, reordering, duplicates, partial batches,
// nodes pushed ahead of request (also via the real TrieNodeResolver), unrelated valid nodes,
// non-canonical re-encodings and forged / malformed messages (forge.go).
// Oracle (only when StartSyncing returns nil): every node reachable from the root (reachability computed
// by the harness from the source bytes) is in DB_dst with the source bytes; the recreated trie has the
// requested root, traverses completely and has exactly the model's leaves; every DB_dst entry satisfies
// hash(value)==key. A panic in the receive path or in a syncer is a violation (keyed by the structure of
// the offending bytes). Deadline / timeout / error outcomes are per-case inconclusive, never violations.
package main

import (
	"bytes"
	"context"
	"errors"
	"fmt"
	"sort"
	"strings"
	"sync"
	"sync/atomic"
	"time"

	logger "github.com/ElrondNetwork/elrond-go-logger"
	"github.com/ElrondNetwork/elrond-go/core"
	"github.com/ElrondNetwork/elrond-go/data"
	"github.com/ElrondNetwork/elrond-go/data/batch"
	"github.com/ElrondNetwork/elrond-go/data/trie"
	"github.com/ElrondNetwork/elrond-go/data/trie/statistics"
	drmock "github.com/ElrondNetwork/elrond-go/dataRetriever/mock"
	"github.com/ElrondNetwork/elrond-go/dataRetriever/resolvers"
	"github.com/ElrondNetwork/elrond-go/hashing/blake2b"
	"github.com/ElrondNetwork/elrond-go/marshal"
	"github.com/ElrondNetwork/elrond-go/process/interceptors/processor"
	"github.com/ElrondNetwork/elrond-go/storage"
	"github.com/ElrondNetwork/elrond-go/storage/lrucache"
	"github.com/ElrondNetwork/elrond-go/storage/lrucache/capacity"
	"github.com/ElrondNetwork/elrond-go/storage/memorydb"
	"github.com/ElrondNetwork/elrond-go/storage/storageCacherAdapter"
	adapterFactory "github.com/ElrondNetwork/elrond-go/storage/storageCacherAdapter/factory"
	"verif/internal/vk"
)

var msh = &marshal.GogoProtoMarshalizer{}
var hsh = blake2b.NewBlake2b()

const pollInterval = 2 * time.Millisecond

// ---------------------------------------------------------------------------------------
// destination DB decorator: checks content addressing at every Put

type recDB struct {
	inner *memorydb.DB
	mu    sync.Mutex
	puts  int64
	gets  int64
	bad   []string

	// storage fault injection: the Put / Get with this 1-based index fails once (0 = never)
	failPutAt   int64
	failGetAt   int64
	failPutKey  string // the first Put of this key fails once ("" = never)
	putFaults   int64  // injected so far
	getFaults   int64
	faultedKeys []string
}

var errInjectedWriteFault = errors.New("verif: injected storage write fault")
var errInjectedReadFault = errors.New("verif: injected storage read fault")

func (d *recDB) Put(key, val []byte) error {
	k := append([]byte{}, key...)
	v := append([]byte{}, val...)
	n := atomic.AddInt64(&d.puts, 1)
	if (d.failPutAt > 0 && n == d.failPutAt) || (d.failPutKey != "" && string(k) == d.failPutKey && atomic.LoadInt64(&d.putFaults) == 0) {
		atomic.AddInt64(&d.putFaults, 1)
		d.mu.Lock()
		d.faultedKeys = append(d.faultedKeys, "put:"+vk.Hex(k))
		d.mu.Unlock()
		return errInjectedWriteFault
	}
	if !bytes.Equal(hsh.Compute(string(v)), k) {
		d.mu.Lock()
		if len(d.bad) < 4 {
			d.bad = append(d.bad, fmt.Sprintf("Put key=%s value=%s hash(value)=%s", vk.Hex(k), hexCap(v, 300), vk.Hex(hsh.Compute(string(v)))))
		}
		d.mu.Unlock()
	}
	return d.inner.Put(k, v)
}
func (d *recDB) Get(key []byte) ([]byte, error) {
	n := atomic.AddInt64(&d.gets, 1)
	if d.failGetAt > 0 && n == d.failGetAt {
		atomic.AddInt64(&d.getFaults, 1)
		d.mu.Lock()
		d.faultedKeys = append(d.faultedKeys, "get:"+vk.Hex(key))
		d.mu.Unlock()
		return nil, errInjectedReadFault
	}
	return d.inner.Get(key)
}
func (d *recDB) Remove(key []byte) error { return d.inner.Remove(key) }
func (d *recDB) Close() error            { return nil }
func (d *recDB) IsInterfaceNil() bool    { return d == nil }

// ---------------------------------------------------------------------------------------
// trie generation

func newTrieOn(db data.DBWriteCacher) data.Trie {
	tsm, err := trie.NewTrieStorageManagerWithoutPruning(db)
	if err != nil {
		panic(err)
	}
	tr, err := trie.NewTrie(tsm, msh, hsh, 5)
	if err != nil {
		panic(err)
	}
	return tr
}

// genKey: paths are reversed key nibbles, so shared SUFFIXES give extension nodes / deep branches
func genKey(rng *vk.Rand, suffixes [][]byte) []byte {
	switch rng.Intn(6) {
	case 0:
		return rng.Bytes(32)
	case 1:
		return rng.Bytes(1 + rng.Intn(3))
	case 2, 3:
		s := suffixes[rng.Intn(len(suffixes))]
		return append(rng.Bytes(1+rng.Intn(4)), s...)
	case 4:
		s := suffixes[rng.Intn(len(suffixes))]
		k := append([]byte{}, s...)
		return append(k, rng.Bytes(1+rng.Intn(2))...)
	default:
		return rng.Bytes(4 + rng.Intn(8))
	}
}

func genValue(rng *vk.Rand) []byte {
	switch {
	case rng.Chance(1, 10):
		return rng.Bytes(200 + rng.Intn(3000))
	case rng.Chance(1, 5):
		return rng.Bytes(33 + rng.Intn(100))
	default:
		return rng.Bytes(1 + rng.Intn(32))
	}
}

type source struct {
	db        *memorydb.DB
	tr        data.Trie
	root      []byte
	model     map[string][]byte
	nodes     map[string][]byte   // reachable from root: hash -> canonical bytes
	children  map[string][]string // harness-parsed
	oldNodes  map[string][]byte   // nodes of the previous committed version (prepopulation), may overlap nodes
	maxNode   int
	numBranch int
	numExt    int
	numLeaf   int
}

// childHashes parses the canonical bytes of a node (harness side, independent of the trie package)
func childHashes(b []byte) (kind byte, out []string) {
	t := b[len(b)-1]
	fields, _ := parseBody(b[:len(b)-1])
	for _, f := range fields {
		if f.wire != 2 || len(f.val) == 0 {
			continue
		}
		if (t == tBranch && f.num == 1) || (t == tExt && f.num == 2) {
			out = append(out, string(f.val))
		}
	}
	return t, out
}

// reach computes the set of nodes reachable from root in db (harness traversal over raw bytes)
func reach(db *memorydb.DB, root []byte) (map[string][]byte, map[string][]string, error) {
	nodes := map[string][]byte{}
	children := map[string][]string{}
	stack := []string{string(root)}
	for len(stack) > 0 {
		h := stack[len(stack)-1]
		stack = stack[:len(stack)-1]
		if _, ok := nodes[h]; ok {
			continue
		}
		b, err := db.Get([]byte(h))
		if err != nil {
			return nil, nil, fmt.Errorf("node %s not in db: %v", vk.Hex([]byte(h)), err)
		}
		nodes[h] = b
		_, ch := childHashes(b)
		children[h] = ch
		stack = append(stack, ch...)
	}
	return nodes, children, nil
}

func buildSource(rng *vk.Rand, nLeaves int, huge bool, withOld bool) *source {
	s := &source{db: memorydb.New(), model: map[string][]byte{}}
	s.tr = newTrieOn(s.db)
	nsuf := 1 + rng.Intn(4)
	suffixes := make([][]byte, nsuf)
	for i := range suffixes {
		suffixes[i] = rng.Bytes(1 + rng.Intn(20))
	}
	put := func(k, v []byte) {
		kk := append([]byte{}, k...)
		vv := append([]byte{}, v...)
		if err := s.tr.Update(kk, vv); err != nil {
			panic(err)
		}
		s.model[string(k)] = append([]byte{}, v...)
	}
	for len(s.model) < nLeaves {
		put(genKey(rng, suffixes), genValue(rng))
	}
	if withOld {
		if err := s.tr.Commit(); err != nil {
			panic(err)
		}
		r0, _ := s.tr.RootHash()
		old, _, err := reach(s.db, r0)
		if err != nil {
			panic(err)
		}
		s.oldNodes = old
		// next version: updates, inserts, deletes
		keys := make([]string, 0, len(s.model))
		for k := range s.model {
			keys = append(keys, k)
		}
		sort.Strings(keys)
		nchg := 1 + rng.Intn(1+len(keys)/3)
		for i := 0; i < nchg; i++ {
			switch rng.Intn(3) {
			case 0:
				put(genKey(rng, suffixes), genValue(rng))
			case 1:
				k := keys[rng.Intn(len(keys))]
				if _, ok := s.model[k]; ok {
					put([]byte(k), genValue(rng))
				}
			case 2:
				k := keys[rng.Intn(len(keys))]
				if _, ok := s.model[k]; ok && len(s.model) > 1 {
					if err := s.tr.Delete([]byte(k)); err != nil {
						panic(err)
					}
					delete(s.model, k)
				}
			}
		}
	}
	if huge {
		put(genKey(rng, suffixes), rng.Bytes(core.MaxBufferSizeToSendTrieNodes+1000+rng.Intn(40000)))
	}
	if err := s.tr.Commit(); err != nil {
		panic(err)
	}
	s.root, _ = s.tr.RootHash()
	s.root = append([]byte{}, s.root...)
	var err error
	s.nodes, s.children, err = reach(s.db, s.root)
	if err != nil {
		panic(err)
	}
	for _, b := range s.nodes {
		if len(b) > s.maxNode {
			s.maxNode = len(b)
		}
		switch b[len(b)-1] {
		case tBranch:
			s.numBranch++
		case tExt:
			s.numExt++
		case tLeaf:
			s.numLeaf++
		}
	}
	return s
}

// buildForeign: an unrelated trie that shares some key/value pairs with the source
func buildForeign(rng *vk.Rand, src *source, n int) *source {
	f := &source{db: memorydb.New(), model: map[string][]byte{}}
	f.tr = newTrieOn(f.db)
	keys := make([]string, 0, len(src.model))
	for k := range src.model {
		keys = append(keys, k)
	}
	sort.Strings(keys)
	suffixes := [][]byte{rng.Bytes(1 + rng.Intn(20)), rng.Bytes(3)}
	for len(f.model) < n {
		var k, v []byte
		if rng.Chance(1, 3) && len(keys) > 0 {
			k = []byte(keys[rng.Intn(len(keys))])
			if rng.Bool() {
				v = src.model[string(k)]
			} else {
				v = genValue(rng)
			}
			if len(v) > 5000 {
				v = v[:100]
			}
		} else {
			k, v = genKey(rng, suffixes), genValue(rng)
		}
		_ = f.tr.Update(append([]byte{}, k...), append([]byte{}, v...))
		f.model[string(k)] = append([]byte{}, v...)
	}
	if err := f.tr.Commit(); err != nil {
		panic(err)
	}
	f.root, _ = f.tr.RootHash()
	f.root = append([]byte{}, f.root...)
	var err error
	f.nodes, f.children, err = reach(f.db, f.root)
	if err != nil {
		panic(err)
	}
	for _, b := range f.nodes {
		if len(b) > f.maxNode {
			f.maxNode = len(b)
		}
	}
	return f
}

// ---------------------------------------------------------------------------------------
// one sync run

type syncParams struct {
	version    int // 1 = trieSyncer, 2 = doubleListTrieSyncer
	cacherKind int
	cacherCap  int
	hardCap    int
	prepop     int // 0 none, 1 previous version complete, 2 random subset of the target nodes
	fault      int // 0 none, 1 exactly one destination-DB Put fails once, 2 exactly one destination-DB Get fails once
	pair       bool
	sched      schedParams
}

var faultNames = []string{"none", "one-put-fails", "one-get-fails"}

var cacherNames = []string{"adapter-large", "adapter-tiny-overflow-to-db", "lru-large", "lru-tiny-lossy", "sizelru-small-lossy"}

func makeCacher(p syncParams, maxNode int) storage.Cacher {
	var c storage.Cacher
	var err error
	switch p.cacherKind {
	case 0, 1:
		n := 300000
		if p.cacherKind == 1 {
			n = p.cacherCap
		}
		lru, e := capacity.NewCapacityLRU(n, 100*1024*1024)
		if e != nil {
			panic(e)
		}
		c, err = storageCacherAdapter.NewStorageCacherAdapter(lru, memorydb.New(), adapterFactory.NewTrieNodeFactory(), msh)
	case 2:
		c, err = lrucache.NewCache(100000)
	case 3:
		c, err = lrucache.NewCache(p.cacherCap)
	case 4:
		// byte-bounded LRU; room for a handful of the largest nodes (sizes are accounted with overhead)
		c, err = lrucache.NewCacheWithSizeInBytes(1000, int64(8*(maxNode+400)))
	}
	if err != nil {
		panic(err)
	}
	return c
}

type syncOutcome struct {
	err      error
	panicked bool
	pval     string
	stack    string
}

func hostileKinds(w *world) string {
	w.mu.Lock()
	defer w.mu.Unlock()
	ks := make([]string, 0, len(w.kinds))
	for k := range w.kinds {
		ks = append(ks, k)
	}
	sort.Strings(ks)
	return strings.Join(ks, ",")
}

func bucket(n int) int {
	b := 0
	for n > 0 {
		n >>= 1
		b++
	}
	return b
}

func runSync(r *vk.Run, c *vk.Case, rng *vk.Rand, src, foreign *source, p syncParams) {
	targets := []*source{src}
	if p.pair {
		targets = append(targets, foreign)
	}
	w := &world{
		nodes: map[string][]byte{}, children: map[string][]string{},
		byGen: map[string]int{}, accByGen: map[string]int{}, kinds: map[string]bool{},
	}
	maxNode := 0
	for _, t := range targets {
		for h, b := range t.nodes {
			w.nodes[h] = b
			w.children[h] = t.children[h]
		}
		if t.maxNode > maxNode {
			maxNode = t.maxNode
		}
	}
	for h := range w.nodes {
		w.nodeList = append(w.nodeList, h)
	}
	sort.Strings(w.nodeList)
	for _, h := range w.nodeList {
		if len(w.nodes[h]) < 5000 {
			w.pool = append(w.pool, w.nodes[h])
		}
	}
	addForeign := func(m map[string][]byte) {
		hs := make([]string, 0, len(m))
		for h := range m {
			hs = append(hs, h)
		}
		sort.Strings(hs)
		for _, h := range hs {
			if _, ok := w.nodes[h]; !ok && len(m[h]) < 5000 {
				w.foreign = append(w.foreign, m[h])
				w.pool = append(w.pool, m[h])
			}
		}
	}
	if !p.pair {
		addForeign(foreign.nodes)
	}
	if p.prepop != 1 && src.oldNodes != nil {
		addForeign(src.oldNodes) // nodes of the previous version are "unrelated" unless prepopulated
	}

	w.cacher = makeCacher(p, maxNode)
	proc, err := processor.NewTrieNodesInterceptorProcessor(w.cacher)
	if err != nil {
		panic(err)
	}
	w.proc = proc

	if p.sched.useResolver {
		sender := &drmock.TopicResolverSenderStub{SendCalled: func(buff []byte, _ core.PeerID) error {
			b := &batch.Batch{}
			if e := msh.Unmarshal(b, buff); e == nil {
				for _, d := range b.Data {
					w.resOut = append(w.resOut, append([]byte{}, d...))
				}
			}
			return nil
		}}
		// the resolver serves from the source trie (only the scheduler goroutine uses it)
		res, e := resolvers.NewTrieNodeResolver(resolvers.ArgTrieNodeResolver{
			SenderResolver: sender, TrieDataGetter: src.tr, Marshalizer: msh,
			AntifloodHandler: &drmock.P2PAntifloodHandlerStub{}, Throttler: &drmock.ThrottlerStub{},
		})
		if e != nil {
			panic(e)
		}
		w.resolver = res
	}

	dst := &recDB{inner: memorydb.New()}
	switch p.fault {
	case 1: // both syncers commit every node they traverse, so there are at least len(nodes) Puts
		dst.failPutAt = int64(1 + rng.Intn(len(src.nodes)))
	case 2: // every node lookup that misses the cacher reads the DB
		dst.failGetAt = int64(1 + rng.Intn(2*len(src.nodes)))
	}
	prepopulated := 0
	switch p.prepop {
	case 1:
		for h, b := range src.oldNodes {
			_ = dst.inner.Put([]byte(h), append([]byte{}, b...))
			prepopulated++
		}
	case 2:
		for _, h := range w.nodeList {
			if h != string(src.root) && rng.Chance(1, 3) {
				_ = dst.inner.Put([]byte(h), append([]byte{}, w.nodes[h]...))
				prepopulated++
			}
		}
	}

	net := newSimNet()
	ctx, cancel := context.WithCancel(context.Background())
	defer cancel()
	var deadlineHit int32
	stop := make(chan struct{})
	abandon := make(chan struct{})
	schedDone := make(chan struct{})
	schedRng := rng.Fork()
	var schedPanic string
	go func() {
		defer close(schedDone)
		pp, v, st := vk.Guard(func() {
			w.runScheduler(schedRng, net, p.sched, stop, func() {
				atomic.StoreInt32(&deadlineHit, 1)
				cancel()
			}, func() { close(abandon) })
		})
		if pp {
			schedPanic = fmt.Sprintf("%v\n%s", v, st)
			cancel()
		}
	}()

	outcomes := make([]syncOutcome, len(targets))
	var wg sync.WaitGroup
	for i, t := range targets {
		arg := trie.ArgTrieSyncer{
			Marshalizer: msh, Hasher: hsh, DB: dst, RequestHandler: net, InterceptedNodes: w.cacher,
			ShardId: 0, Topic: topicName, TrieSyncStatistics: statistics.NewTrieSyncStatistics(),
			TimeoutBetweenTrieNodesCommits: 30 * time.Second, MaxHardCapForMissingNodes: p.hardCap,
		}
		var syncer data.TrieSyncer
		var e error
		if p.version == 1 {
			syncer, e = trie.NewTrieSyncer(arg)
		} else {
			syncer, e = trie.NewDoubleListTrieSyncer(arg)
		}
		if e != nil {
			panic(e)
		}
		if !trie.VerifSetSyncerPollInterval(syncer, pollInterval) {
			panic("poll interval hook did not recognise the syncer")
		}
		wg.Add(1)
		go func(i int, root []byte, syncer data.TrieSyncer) {
			defer wg.Done()
			o := &outcomes[i]
			o.panicked, _, o.stack = vk.Guard(func() {
				o.err = syncer.StartSyncing(append([]byte{}, root...), ctx)
			})
			if o.panicked {
				o.pval = "panic in StartSyncing"
			}
		}(i, t.root, syncer)
	}
	allDone := make(chan struct{})
	go func() { wg.Wait(); close(allDone) }()
	hung := false
	select {
	case <-allDone:
	case <-abandon:
		// the context was cancelled at the virtual deadline and StartSyncing still did not return after
		// graceRounds more scheduler rounds: leave the goroutine behind, the case is inconclusive
		hung = true
	}
	close(stop)
	<-schedDone
	if hung {
		r.Count("syncs_started_"+fmt.Sprintf("v%d", p.version), len(targets))
		r.Count("sync_inconclusive_"+fmt.Sprintf("v%d", p.version)+":no-return-after-context-cancel", len(targets))
		r.Count("syncs_inconclusive", len(targets))
		return
	}

	// ---- observations into evidence
	vn := fmt.Sprintf("v%d", p.version)
	r.Count("deliveries", int(w.nDeliv))
	r.Count("deliveries_accepted_into_cacher", int(w.nAccepted))
	r.Count("deliveries_rejected_by_receive_path", int(w.nRejected))
	r.Count("duplicates_delivered", int(w.nDup))
	r.Count("requests_dropped", int(w.nDrop))
	r.Count("requests_delayed_rounds", int(w.nDelayed))
	r.Count("nodes_pushed_ahead_of_request", int(w.nAhead))
	r.Count("non_canonical_delivered", int(w.nNonCanon))
	r.Count("non_canonical_accepted_same_hash", int(w.ncSameHash))
	r.Count("non_canonical_accepted_other_hash", int(w.ncOtherHash))
	r.Count("non_canonical_rejected", int(w.ncRejected))
	r.Count("requests_for_unknown_hash", int(w.nUnknownReq))
	r.Count("request_calls", int(net.calls))
	r.Count("requested_hashes", int(net.hashes))
	r.Count("resolver_answered_rounds", int(w.viaResolver))
	r.Count("db_dst_puts", int(dst.puts))
	r.Count("db_dst_gets", int(dst.gets))
	r.Count("syncs_with_fault_mode:"+faultNames[p.fault], len(targets))
	r.Count("injected_write_faults", int(dst.putFaults))
	r.Count("injected_read_faults", int(dst.getFaults))
	if p.fault != 0 && dst.putFaults+dst.getFaults == 0 {
		r.Count("fault_index_not_reached", 1)
	}
	r.Count("db_dst_prepopulated_entries", prepopulated)
	r.Count("genuine_rejected_by_receive_path", int(w.genuineRej))
	r.Max("scheduler_rounds_max", w.rounds)
	r.Max("delivery_batch_max", w.maxBatch)
	r.Max("requested_distinct_hashes_in_one_round_max", w.maxPending)
	for g, n := range w.byGen {
		r.Count("delivered:"+g, n)
	}
	for g, n := range w.accByGen {
		if strings.HasPrefix(g, "forged:") {
			r.Count("accepted_under_own_hash:"+g, n)
		}
	}
	r.Eval(int(w.nDeliv)) // every delivery is checked for panic / hash consistency

	baseDetail := func() map[string]interface{} {
		return map[string]interface{}{
			"syncer_version": p.version, "cacher": cacherNames[p.cacherKind], "cacher_cap": p.cacherCap,
			"hard_cap": p.hardCap, "prepop": p.prepop, "pair": p.pair, "sched": fmt.Sprintf("%+v", p.sched),
			"fault_mode": faultNames[p.fault], "injected_faults": append([]string{}, dst.faultedKeys...),
			"leaves": len(src.model), "root": vk.Hex(src.root), "source_nodes": len(src.nodes),
		}
	}

	if schedPanic != "" {
		d := baseDetail()
		d["stack"] = schedPanic
		r.Violation(c.Idx, "panic-in-harness-scheduler", "the harness scheduler panicked (harness bug or panic outside the guarded receive path)", d)
	}
	// panics in the receive path
	seen := map[string]bool{}
	for _, pr := range w.panics {
		key := "panic-on-forged-node class=" + pr.class
		if strings.HasPrefix(pr.gen, "genuine") || pr.gen == "resolver-batch" || pr.gen == "foreign-valid-node" {
			key = "panic-on-valid-node class=" + pr.class
		}
		if seen[key] {
			continue
		}
		seen[key] = true
		d := baseDetail()
		d["offending_bytes_hex"] = hexCap(pr.data, 2048)
		d["generator"] = pr.gen
		d["panic"] = pr.val
		d["stack"] = pr.stack
		d["top_frame"] = vk.TopFrame(pr.stack)
		r.Violation(c.Idx, key, fmt.Sprintf("receive path panicked on message %s (%s): %s at %s", hexCap(pr.data, 40), pr.class, pr.val, vk.TopFrame(pr.stack)), d)
	}
	for _, m := range w.hashMism {
		d := baseDetail()
		d["mismatch"] = m
		r.Violation(c.Idx, "intercepted-hash-differs-from-content-hash", "a canonical node was accepted under a hash that is not the hash of its content: "+m, d)
		break
	}
	if len(dst.bad) > 0 {
		d := baseDetail()
		d["entries"] = dst.bad
		r.Violation(c.Idx, "foreign-node-stored-under-wrong-hash", "syncer wrote a DB entry whose key is not the hash of its value: "+dst.bad[0], d)
	}

	for i, t := range targets {
		o := outcomes[i]
		r.Count("syncs_started_"+vn, 1)
		if o.panicked {
			d := baseDetail()
			d["stack"] = o.stack
			r.Violation(c.Idx, "panic-in-syncer:"+vk.TopFrame(o.stack), "StartSyncing panicked at "+vk.TopFrame(o.stack), d)
			continue
		}
		if o.err != nil && dst.putFaults > 0 && errors.Is(o.err, errInjectedWriteFault) {
			// the defined outcome of a failed write: the sync stops with that error
			r.Eval(1)
			r.Count("sync_returned_injected_write_error_"+vn, 1)
			continue
		}
		if o.err != nil {
			reason := o.err.Error()
			if atomic.LoadInt32(&deadlineHit) == 1 && o.err == trie.ErrContextClosing {
				reason = "virtual-deadline"
			}
			r.Count("sync_inconclusive_"+vn+":"+reason, 1)
			r.Count("syncs_inconclusive", 1)
			continue
		}
		r.Count("syncs_completed_"+vn, 1)
		if dst.putFaults > 0 {
			r.Count("syncs_completed_nil_after_injected_write_fault_"+vn, 1)
		}
		if dst.getFaults > 0 {
			r.Count("syncs_completed_nil_after_injected_read_fault_"+vn, 1)
		}
		checkSynced(r, c, dst, t, p, baseDetail)
		kinds := hostileKinds(w)
		if dst.putFaults > 0 {
			kinds += ",write-fault"
		}
		if dst.getFaults > 0 {
			kinds += ",read-fault"
		}
		if kinds == "" {
			r.Trivial()
			continue
		}
		r.Shape(fmt.Sprintf("v%d %s L%d cap%d pre%d pair%v res%v ext%v [%s]", p.version, cacherNames[p.cacherKind], bucket(len(t.model)),
			bucket(p.hardCap), p.prepop, p.pair, p.sched.useResolver, t.numExt > 0, kinds))
		if i == 0 && r.NeedSample() {
			keys := make([]string, 0, len(t.model))
			for k := range t.model {
				keys = append(keys, k)
			}
			sort.Strings(keys)
			lv := map[string]string{}
			for _, k := range keys {
				if len(lv) >= 4 {
					break
				}
				lv[vk.Hex([]byte(k))] = hexCap(t.model[k], 24)
			}
			r.Sample(map[string]interface{}{
				"case": c.Idx, "syncer_version": p.version, "root": vk.Hex(t.root), "leaves": len(t.model),
				"first_leaves": lv, "source_nodes": len(t.nodes), "branch/ext/leaf": fmt.Sprintf("%d/%d/%d", t.numBranch, t.numExt, t.numLeaf),
				"cacher": cacherNames[p.cacherKind], "cacher_cap": p.cacherCap, "hard_cap": p.hardCap, "prepop": p.prepop, "pair": p.pair,
				"sched": fmt.Sprintf("%+v", p.sched), "deliveries": w.nDeliv, "accepted": w.nAccepted, "rejected": w.nRejected,
				"duplicates": w.nDup, "dropped": w.nDrop, "rounds": w.rounds, "hostile_kinds": kinds, "result": "synced; oracle passed",
			})
		}
	}
}

// checkSynced applies the oracle after StartSyncing returned nil
func checkSynced(r *vk.Run, c *vk.Case, dst *recDB, t *source, p syncParams, baseDetail func() map[string]interface{}) {
	checkSyncedClass(r, c, dst, t, "", "StartSyncing", baseDetail)
}

// checkSyncedClass is the completeness oracle for one trie t after the call named api returned nil. class (empty or
// " class=...") is appended to the witness keys of the phases that have their own witness classes.
func checkSyncedClass(r *vk.Run, c *vk.Case, dst *recDB, t *source, class string, api string, baseDetail func() map[string]interface{}) {
	// 1. every reachable node (harness reachability over source bytes) is in DB_dst with the source bytes
	r.Eval(1)
	missing, differ := 0, 0
	firstMissing, firstDiffer := "", ""
	hs := make([]string, 0, len(t.nodes))
	for h := range t.nodes {
		hs = append(hs, h)
	}
	sort.Strings(hs)
	for _, h := range hs {
		v, err := dst.inner.Get([]byte(h))
		if err != nil {
			missing++
			if firstMissing == "" {
				firstMissing = vk.Hex([]byte(h))
			}
			continue
		}
		if !bytes.Equal(v, t.nodes[h]) {
			differ++
			if firstDiffer == "" {
				firstDiffer = fmt.Sprintf("key=%s stored=%s source=%s", vk.Hex([]byte(h)), hexCap(v, 200), hexCap(t.nodes[h], 200))
			}
		}
	}
	if missing > 0 {
		d := baseDetail()
		d["missing_nodes"] = missing
		d["first_missing"] = firstMissing
		d["is_root"] = firstMissing == vk.Hex(t.root)
		key := "missing-node-after-sync" + class
		switch {
		case dst.putFaults > 0:
			key += " class=after-swallowed-write-fault"
		case dst.getFaults > 0:
			key += " class=after-read-fault"
		}
		r.Violation(c.Idx, key, fmt.Sprintf(api+" returned nil but %d of %d nodes reachable from root %s are not in the destination DB (first %s)", missing, len(t.nodes), vk.Hex(t.root), firstMissing), d)
	}
	if differ > 0 {
		d := baseDetail()
		d["first"] = firstDiffer
		r.Violation(c.Idx, "node-content-differs-from-source"+class, fmt.Sprintf("%d destination nodes differ from the source bytes: %s", differ, firstDiffer), d)
	}

	// 2. every DB_dst entry is content addressed
	r.Eval(1)
	badEntries := 0
	firstBad := ""
	entries := 0
	dst.inner.RangeKeys(func(k, v []byte) bool {
		entries++
		if !bytes.Equal(hsh.Compute(string(v)), k) {
			badEntries++
			if firstBad == "" {
				firstBad = fmt.Sprintf("key=%s value=%s", vk.Hex(k), hexCap(v, 300))
			}
		}
		return true
	})
	r.Count("db_dst_entries_checked", entries)
	if badEntries > 0 {
		d := baseDetail()
		d["first"] = firstBad
		r.Violation(c.Idx, "foreign-node-stored-under-wrong-hash", fmt.Sprintf("%d destination DB entries have hash(value) != key: %s", badEntries, firstBad), d)
	}

	if missing > 0 || differ > 0 || badEntries > 0 {
		return // the real traversal below is only safe on a DB that holds exactly the source structure
	}

	// 3. the real trie recreated over DB_dst: root, full traversal, leaves
	r.Eval(1)
	var problem, key string
	pp, pv, st := vk.Guard(func() {
		tr := newTrieOn(dst.inner)
		rt, err := tr.Recreate(append([]byte{}, t.root...))
		if err != nil {
			key, problem = "recreate-failed-after-sync", "Recreate(root): "+err.Error()
			return
		}
		got, err := rt.RootHash()
		if err != nil || !bytes.Equal(got, t.root) {
			key, problem = "wrong-trie-root-after-sync", fmt.Sprintf("recreated root %s != requested %s (%v)", vk.Hex(got), vk.Hex(t.root), err)
			return
		}
		all, err := rt.GetAllHashes()
		if err != nil {
			key, problem = "traversal-failed-after-sync", "GetAllHashes: "+err.Error()
			return
		}
		if len(all) != len(t.nodes) {
			key, problem = "wrong-trie-node-set-after-sync", fmt.Sprintf("GetAllHashes returned %d hashes, source has %d nodes", len(all), len(t.nodes))
			return
		}
		for _, h := range all {
			if _, ok := t.nodes[string(h)]; !ok {
				key, problem = "wrong-trie-node-set-after-sync", "node "+vk.Hex(h)+" is not a source node"
				return
			}
		}
		ch, err := rt.GetAllLeavesOnChannel(append([]byte{}, t.root...))
		if err != nil {
			key, problem = "traversal-failed-after-sync", "GetAllLeavesOnChannel: "+err.Error()
			return
		}
		leaves := map[string][]byte{}
		for kv := range ch {
			leaves[string(kv.Key())] = append([]byte{}, kv.Value()...)
		}
		if len(leaves) != len(t.model) {
			key, problem = "wrong-trie-leaf-set-after-sync", fmt.Sprintf("%d leaves, model has %d", len(leaves), len(t.model))
			return
		}
		for k, v := range t.model {
			if !bytes.Equal(leaves[k], v) {
				key, problem = "wrong-trie-leaf-set-after-sync", fmt.Sprintf("leaf %s = %s, model %s", vk.Hex([]byte(k)), hexCap(leaves[k], 64), hexCap(v, 64))
				return
			}
		}
		r.Count("leaves_compared", len(leaves))
		r.Count("nodes_compared", len(all))
	})
	if pp {
		key, problem = "panic-in-traversal-after-sync:"+vk.TopFrame(st), fmt.Sprintf("%v at %s", pv, vk.TopFrame(st))
	}
	if key != "" {
		d := baseDetail()
		d["problem"] = problem
		r.Violation(c.Idx, key+class, "after "+api+" returned nil: "+problem, d)
	}
}

// ---------------------------------------------------------------------------------------

func main() {
	_ = logger.SetLogLevel("*:NONE")
	r := vk.Start("C05")
	r.Rule("a case = one generated source trie (1-400 leaves, keys with shared suffixes so that extension nodes occur, values 1 B - 3 KB, 1 in 10 tries with one value above 256 KB; 1 in 3 tries is a second version on top of a committed previous one) synced by BOTH real syncers, each under its own random hostile schedule (per-hash drops<=3 and delays<=4 rounds with guaranteed later answer, reordering, duplicates, late duplicates, partial batches delivered by 1-3 concurrent goroutines, children pushed ahead of request or the real TrieNodeResolver answering with sub-tries, unrelated valid nodes, non-canonical re-encodings, forged/malformed messages), cacher in {production storageCacherAdapter large / tiny-with-overflow, LRU large / tiny lossy, byte-bounded LRU}, destination DB empty / holding the previous version / a random third of the target nodes, hard cap in {1,3,20,500,10000}; storage faults on the destination DB: in 1 of 4 syncs exactly one Put (random index) returns an error once, in about 1 of 10 exactly one Get does; 1 in 5 cases syncs a second overlapping trie concurrently through the same cacher and DB. A sync is non-trivial if StartSyncing returned nil and at least one hostile event happened; distinct = (syncer, cacher, leaf bucket, hard-cap bucket, prepopulation, pair, resolver, has-extension, set of hostile kinds). " +
		"Phase 2 (shared.go): 2-3 tries synced by several StartSyncing calls on ONE syncer instance under the same kind of schedule: overlapping calls on the double-list syncer (documented: concurrent calls are serialized; each further call is issued once the network has been asked for something), back-to-back calls on the first-version syncer; every call that returns nil is judged for ITS root. " +
		"Phase 3 (accounts.go): a state = main trie of 2-10 marshalled user accounts, 2-5 of them with a data trie (1-24 leaves), synced by the real userAccountsSyncer.SyncAccounts (both syncer versions, throttler 1-16) through the same network; modes: no fault / one Put of a node of one data trie fails once while the other data tries are held back until then / same fault, throttler 1-2, no hold / (first-version syncer, 3 s time-out) one data trie is never served while the others trickle in one node per poll; SyncAccounts == nil is judged for the main trie and every data trie.")
	r.Assume(
		"blake2b and the gogo-proto marshalizer are trusted; reachability / child hashes are parsed by the harness from the source DB bytes",
		"the network is fair: every request for a known hash is answered after at most 3 ignored requests and 4 delay rounds; lossy cachers make progress probabilistic, runs that hit the virtual deadline (scheduler rounds) or the syncer's own timeout are counted per-case inconclusive",
		"chunked transfer of nodes above 256 KB is a p2p-layer concern and not modelled: such nodes are delivered whole",
		"an injected destination-DB write fault may end the sync with that error (counted, the case ends there); if StartSyncing returns nil after an injected Put or Get fault the full completeness oracle applies",
		"the poll sleeps of the syncers are shortened to 2 ms through data/trie/verif_hooks.go (speed only); the syncers created inside SyncAccounts keep their production poll intervals (1 s / 100 ms)",
		"overlapping StartSyncing calls on one instance are only issued to the double-list syncer, whose doc comment promises serialization; the first-version syncer writes rootHash/rootFound outside its lock and replaces its frontier per call, so only sequential re-use of an instance is exercised there",
		"an error returned by SyncAccounts (reported write fault, time out) is a defined outcome: nothing is claimed about the storage then; in the accounts phase the context belongs to SyncAccounts, so at the virtual deadline the simulated network turns fair and prompt instead of cancelling",
	)
	r.MinShapes(r.N(20, 200))
	nCases := r.N(40, 1000)

	// the later phases keep the case indices (and PRNG streams) of the classic phase unchanged
	nShared := r.N(8, 120)    // several StartSyncing calls on ONE syncer instance (shared.go)
	nAccounts := r.N(10, 120) // state sync through userAccountsSyncer (accounts.go)
	nAcctTimeout := r.N(2, 8) // the same with a data trie the peers never serve (first-version syncer, wall-clock time out)

	// the accounts cases mostly sleep (production poll intervals of 1 s / 100 ms): they are started first so that they
	// overlap with the CPU-bound classic cases; the LOGICAL case index selects the PRNG stream
	nSlow := nAccounts + nAcctTimeout
	r.Parallel(nCases+nShared+nSlow, func(c0 *vk.Case) {
		logical := c0.Idx - nSlow
		if c0.Idx < nSlow {
			logical = nCases + nShared + c0.Idx
		}
		c := &vk.Case{Idx: c0.Idx, Rng: r.Rng(logical), R: r}
		switch {
		case logical >= nCases+nShared+nAccounts:
			accountsCase(r, c, true)
			return
		case logical >= nCases+nShared:
			accountsCase(r, c, false)
			return
		case logical >= nCases:
			sharedCase(r, c)
			return
		}
		rng := c.Rng
		var nLeaves int
		switch x := rng.Intn(10); {
		case x == 0:
			nLeaves = 1 + rng.Intn(4)
		case x <= 5:
			nLeaves = 5 + rng.Intn(56)
		case x <= 8:
			nLeaves = 60 + rng.Intn(140)
		default:
			nLeaves = 200 + rng.Intn(201)
		}
		huge := rng.Chance(1, 10)
		withOld := rng.Chance(1, 3)
		src := buildSource(rng, nLeaves, huge, withOld)
		foreign := buildForeign(rng, src, 3+rng.Intn(60))
		r.Count("source_tries", 1)
		r.Count("source_nodes_total", len(src.nodes))
		r.Max("source_nodes_max", int64(len(src.nodes)))
		r.Max("source_node_bytes_max", int64(src.maxNode))
		if src.numExt > 0 {
			r.Count("source_tries_with_extension_nodes", 1)
		}

		versions := []int{1, 2}
		if rng.Bool() {
			versions = []int{2, 1}
		}
		pair := rng.Chance(1, 5)
		for _, ver := range versions {
			p := syncParams{version: ver, pair: pair}
			p.cacherKind = rng.Intn(5)
			p.cacherCap = 1 + rng.Intn(8)
			if p.cacherKind == 3 {
				p.cacherCap = 2 + rng.Intn(30)
			}
			if (p.cacherKind == 3 || p.cacherKind == 4) && (huge || nLeaves > 150) {
				p.cacherKind = 2
			}
			p.hardCap = []int{1, 3, 20, 500, 10000}[rng.Intn(5)]
			if rng.Chance(1, 4) {
				p.fault = 1
			} else if rng.Chance(1, 8) {
				p.fault = 2
			}
			if withOld {
				p.prepop = []int{0, 1, 1, 2}[rng.Intn(4)]
			} else {
				p.prepop = []int{0, 0, 0, 2}[rng.Intn(4)]
			}
			p.sched = schedParams{
				maxDrops: rng.Intn(4), maxDelay: rng.Intn(5), dupPct: []int{0, 10, 50}[rng.Intn(3)],
				junkPerRnd: []int{0, 2, 6, 12}[rng.Intn(4)], aheadPct: []int{0, 20, 60}[rng.Intn(3)],
				nonCanonPct: []int{0, 10, 40}[rng.Intn(3)], lateDupPct: []int{0, 20}[rng.Intn(2)],
				workers: 1 + rng.Intn(3), useResolver: !huge && !pair && rng.Chance(1, 4), maxRounds: 4000,
			}
			runSync(r, c, rng.Fork(), src, foreign, p)
		}
	})

	started := r.Counter("syncs_started_v1") + r.Counter("syncs_started_v2")
	inc := r.Counter("syncs_inconclusive")
	r.Extra("syncs_started", started)
	r.Extra("syncs_inconclusive", inc)
	if races := vk.CollectRaces(); len(races) > 0 {
		r.Extra("race_reports", races) // evidence only for this property
	} else {
		r.Extra("race_reports", []string{})
	}
	if started > 0 && inc*2 > started {
		r.Inconclusive(fmt.Sprintf("%d of %d syncs did not complete (deadline / timeout / error)", inc, started))
	}
	r.Finish()
}
