package main

// The simulated network: the RequestHandler handed to the real syncers records requested hashes; a
// scheduler goroutine answers them from the source nodes through the real receive path
// (trie.NewInterceptedTrieNode -> CheckValidity -> TrieNodeInterceptorProcessor.Validate/Save -> cacher)
// under a hostile but fair schedule.

import (
	"bytes"
	"fmt"
	"runtime"
	"sort"
	"sync"
	"sync/atomic"
	"time"

	"github.com/ElrondNetwork/elrond-go/core"
	"github.com/ElrondNetwork/elrond-go/data/batch"
	"github.com/ElrondNetwork/elrond-go/data/trie"
	"github.com/ElrondNetwork/elrond-go/dataRetriever"
	drmock "github.com/ElrondNetwork/elrond-go/dataRetriever/mock"
	"github.com/ElrondNetwork/elrond-go/dataRetriever/resolvers"
	"github.com/ElrondNetwork/elrond-go/process/interceptors/processor"
	"github.com/ElrondNetwork/elrond-go/storage"
	"verif/internal/vk"
)

const topicName = "trieNodes_0"

// ---------------------------------------------------------------------------------------
// request side

type simNet struct {
	mu      sync.Mutex
	pending map[string]int
	calls   int64
	hashes  int64
	wake    chan struct{}
}

func newSimNet() *simNet {
	return &simNet{pending: map[string]int{}, wake: make(chan struct{}, 1)}
}

// RequestTrieNodes is called by the syncers (their goroutines)
func (n *simNet) RequestTrieNodes(_ uint32, hashes [][]byte, _ string) {
	n.mu.Lock()
	n.calls++
	for _, h := range hashes {
		n.pending[string(h)]++ // string() copies
		n.hashes++
	}
	n.mu.Unlock()
	select {
	case n.wake <- struct{}{}:
	default:
	}
}

// RequestInterval -
func (n *simNet) RequestInterval() time.Duration { return time.Second }

// IsInterfaceNil -
func (n *simNet) IsInterfaceNil() bool { return n == nil }

func (n *simNet) take() []string {
	n.mu.Lock()
	out := make([]string, 0, len(n.pending))
	for h := range n.pending {
		out = append(out, h)
	}
	n.pending = map[string]int{}
	n.mu.Unlock()
	sort.Strings(out)
	return out
}

// ---------------------------------------------------------------------------------------
// receive side

type delivery struct {
	data   []byte
	gen    string // generator label (evidence only)
	expect []byte // content hash the interceptor must compute (only set for canonical bytes of a known node)
	ncOf   []byte // for a non-canonical re-encoding: the hash of the canonical form (observation only)
}

type panicRec struct {
	where string
	class string
	gen   string
	data  []byte
	val   string
	stack string
}

type world struct {
	cacher storage.Cacher
	proc   *processor.TrieNodeInterceptorProcessor

	nodes    map[string][]byte   // canonical bytes of every node that may legitimately be requested
	children map[string][]string // harness-parsed child hashes of those nodes
	nodeList []string            // sorted keys of nodes
	pool     [][]byte            // genuine + foreign canonical nodes (material for forgeries)
	foreign  [][]byte            // valid nodes of an unrelated trie (not in nodes)
	resolver *resolvers.TrieNodeResolver
	resOut   [][]byte // filled by the resolver's sender stub

	// observations (atomics / mutex)
	mu          sync.Mutex
	byGen       map[string]int // deliveries by generator label
	accByGen    map[string]int // accepted (saved in cacher) by generator label
	panics      []panicRec
	hashMism    []string
	genuineRej  int64
	nDeliv      int64
	nAccepted   int64
	nRejected   int64
	nDup        int64
	nDrop       int64
	nDelayed    int64
	nAhead      int64
	nNonCanon   int64
	ncSameHash  int64
	ncOtherHash int64
	ncRejected  int64
	nUnknownReq int64
	rounds      int64
	maxBatch    int64
	maxPending  int64
	viaResolver int64
	kinds       map[string]bool // hostile kinds that actually happened

	// gate, when set, is applied by the scheduler to the requested hashes of every round BEFORE the per-hash
	// drop / delay rules: the hashes it filters out are ignored this round (the syncers request again at their
	// next poll). Used by the phases that need a targeted schedule (hold a trie back, never serve a trie).
	gate func(reqs []string) []string
}

func (w *world) kind(k string) {
	w.mu.Lock()
	w.kinds[k] = true
	w.mu.Unlock()
}

// receive pushes one message through the real receive path. Any panic is recorded with the bytes.
func (w *world) receive(d delivery) {
	buf := append([]byte{}, d.data...) // the node under test owns its buffer; the harness keeps d.data
	atomic.AddInt64(&w.nDeliv, 1)
	accepted := false
	var gotHash []byte
	var rejected error
	p, v, st := vk.Guard(func() {
		in, err := trie.NewInterceptedTrieNode(buf, msh, hsh)
		if err != nil {
			rejected = err
			return
		}
		err = in.CheckValidity()
		if err != nil {
			rejected = err
			return
		}
		_ = in.IsForCurrentShard()
		_ = in.Type()
		_ = in.String()
		_ = in.Identifiers()
		_ = in.SizeInBytes()
		err = w.proc.Validate(in, core.PeerID("peer"))
		if err != nil {
			rejected = err
			return
		}
		err = w.proc.Save(in, core.PeerID("peer"), topicName)
		if err != nil {
			rejected = err
			return
		}
		gotHash = append([]byte{}, in.Hash()...)
		accepted = true
	})
	w.mu.Lock()
	w.byGen[d.gen]++
	if accepted {
		w.accByGen[d.gen]++
	}
	if p {
		if len(w.panics) < 8 {
			w.panics = append(w.panics, panicRec{where: "receive", class: classify(d.data), gen: d.gen, data: d.data, val: fmt.Sprint(v), stack: st})
		}
	}
	w.mu.Unlock()
	if p {
		return
	}
	if accepted {
		atomic.AddInt64(&w.nAccepted, 1)
	} else {
		atomic.AddInt64(&w.nRejected, 1)
	}
	if d.expect != nil {
		if !accepted {
			atomic.AddInt64(&w.genuineRej, 1)
			_ = rejected
		} else if !bytes.Equal(gotHash, d.expect) {
			w.mu.Lock()
			if len(w.hashMism) < 4 {
				w.hashMism = append(w.hashMism, fmt.Sprintf("gen=%s bytes=%s interceptedHash=%s contentHash=%s", d.gen, hexCap(d.data, 200), vk.Hex(gotHash), vk.Hex(d.expect)))
			}
			w.mu.Unlock()
		}
	}
	if d.ncOf != nil {
		switch {
		case !accepted:
			atomic.AddInt64(&w.ncRejected, 1)
		case bytes.Equal(gotHash, d.ncOf):
			atomic.AddInt64(&w.ncSameHash, 1)
		default:
			atomic.AddInt64(&w.ncOtherHash, 1)
		}
	}
}

func hexCap(b []byte, n int) string {
	if len(b) > n {
		return vk.Hex(b[:n]) + fmt.Sprintf("...(%d bytes)", len(b))
	}
	return vk.Hex(b)
}

// ---------------------------------------------------------------------------------------
// scheduler

type schedParams struct {
	maxDrops    int // per hash: how many requests may be ignored
	maxDelay    int // per hash: rounds a first answer may be late
	dupPct      int
	junkPerRnd  int // max junk messages per round
	aheadPct    int // chance to push children of an answered node before they are requested
	nonCanonPct int
	lateDupPct  int
	workers     int // concurrent deliverers per round
	useResolver bool
	maxRounds   int
}

// rounds the scheduler keeps running after the context was cancelled before a sync that has not returned is abandoned
const graceRounds = 3000

// idle scheduler ticks (no request pending) after which a sync is given up as well
const maxIdleTicks = 30000

type hashState struct {
	drops, delay int
	answered     int
	ncTried      bool
}

// runScheduler answers requests until stop is closed. It calls deadline() once when the virtual deadline
// (maxRounds rounds) passes.
func (w *world) runScheduler(rng *vk.Rand, net *simNet, p schedParams, stop <-chan struct{}, deadline func(), abandon func()) {
	states := map[string]*hashState{}
	var answeredList []string
	deadlineHit, abandoned := false, false
	active, idle, deadlineAt := 0, 0, 0
	for round := 0; ; round++ {
		select {
		case <-stop:
			return
		case <-net.wake:
		case <-time.After(3 * time.Millisecond):
		}
		reqs := net.take()
		// virtual clock: rounds with pending requests count towards the deadline; idle ticks (>= 3 ms each)
		// only towards a much larger bound that catches a syncer that neither requests nor returns
		if len(reqs) > 0 {
			active++
			atomic.AddInt64(&w.rounds, 1)
		} else {
			idle++
		}
		if (active > p.maxRounds || idle > maxIdleTicks) && !deadlineHit {
			deadlineHit = true
			deadlineAt = round
			deadline()
		}
		if deadlineHit && round > deadlineAt+graceRounds && !abandoned {
			abandoned = true
			abandon()
		}
		if int64(len(reqs)) > atomic.LoadInt64(&w.maxPending) {
			atomic.StoreInt64(&w.maxPending, int64(len(reqs)))
		}
		if w.gate != nil {
			reqs = w.gate(reqs)
		}
		var batchOut []delivery
		var toAnswer []string
		for _, h := range reqs {
			if _, ok := w.nodes[h]; !ok {
				atomic.AddInt64(&w.nUnknownReq, 1)
				continue
			}
			st := states[h]
			if st == nil {
				st = &hashState{drops: rng.Intn(p.maxDrops + 1), delay: rng.Intn(p.maxDelay + 1)}
				states[h] = st
			}
			if st.delay > 0 {
				st.delay--
				atomic.AddInt64(&w.nDelayed, 1)
				w.kind("delay")
				continue
			}
			if st.drops > 0 && rng.Bool() {
				st.drops--
				atomic.AddInt64(&w.nDrop, 1)
				w.kind("drop")
				continue
			}
			toAnswer = append(toAnswer, h)
		}
		if p.useResolver && len(toAnswer) > 0 && w.resolver != nil {
			// the real resolver answers (it adds sub-trie nodes nobody asked for yet)
			for _, b := range w.resolve(toAnswer) {
				batchOut = append(batchOut, delivery{data: b, gen: "resolver-batch", expect: hsh.Compute(string(b))})
			}
			atomic.AddInt64(&w.viaResolver, 1)
			for _, h := range toAnswer {
				if states[h].answered == 0 {
					answeredList = append(answeredList, h)
				}
				states[h].answered++
			}
			w.kind("resolver-subtrie")
		} else {
			for _, h := range toAnswer {
				st := states[h]
				canon := w.nodes[h]
				if st.answered == 0 {
					answeredList = append(answeredList, h)
				}
				st.answered++
				if !st.ncTried && rng.Intn(100) < p.nonCanonPct {
					// first answer is a non-canonical re-encoding INSTEAD of the canonical bytes (once per hash)
					st.ncTried = true
					if nc, lab := nonCanonical(rng, canon); nc != nil {
						batchOut = append(batchOut, delivery{data: nc, gen: "non-canonical:" + lab, ncOf: []byte(h)})
						atomic.AddInt64(&w.nNonCanon, 1)
						w.kind("non-canonical")
						continue
					}
				}
				batchOut = append(batchOut, delivery{data: canon, gen: "genuine", expect: []byte(h)})
				if rng.Intn(100) < p.dupPct {
					n := 1 + rng.Intn(2)
					for i := 0; i < n; i++ {
						batchOut = append(batchOut, delivery{data: canon, gen: "genuine-duplicate", expect: []byte(h)})
					}
					atomic.AddInt64(&w.nDup, int64(n))
					w.kind("duplicate")
				}
				if rng.Intn(100) < p.aheadPct {
					for _, ch := range w.children[h] {
						if cb, ok := w.nodes[ch]; ok && rng.Bool() {
							batchOut = append(batchOut, delivery{data: cb, gen: "genuine-ahead-of-request", expect: []byte(ch)})
							atomic.AddInt64(&w.nAhead, 1)
							w.kind("ahead-of-request")
						}
					}
				}
			}
		}
		// late duplicates of nodes answered long ago (the syncer has consumed them already)
		if len(answeredList) > 0 && rng.Intn(100) < p.lateDupPct {
			n := 1 + rng.Intn(3)
			for i := 0; i < n; i++ {
				h := answeredList[rng.Intn(len(answeredList))]
				batchOut = append(batchOut, delivery{data: w.nodes[h], gen: "genuine-late-duplicate", expect: []byte(h)})
				atomic.AddInt64(&w.nDup, 1)
			}
			w.kind("late-duplicate")
		}
		// junk
		if p.junkPerRnd > 0 {
			n := rng.Intn(p.junkPerRnd + 1)
			for i := 0; i < n; i++ {
				switch rng.Intn(5) {
				case 0:
					if len(w.foreign) > 0 {
						f := w.foreign[rng.Intn(len(w.foreign))]
						batchOut = append(batchOut, delivery{data: f, gen: "foreign-valid-node", expect: hsh.Compute(string(f))})
						w.kind("foreign")
						continue
					}
					fallthrough
				case 1:
					if len(w.nodeList) > 0 {
						h := w.nodeList[rng.Intn(len(w.nodeList))]
						if nc, lab := nonCanonical(rng, w.nodes[h]); nc != nil {
							batchOut = append(batchOut, delivery{data: nc, gen: "non-canonical:" + lab, ncOf: []byte(h)})
							atomic.AddInt64(&w.nNonCanon, 1)
							w.kind("non-canonical")
							continue
						}
					}
					fallthrough
				default:
					b, lab := forged(rng, w.pool)
					batchOut = append(batchOut, delivery{data: b, gen: "forged:" + lab})
					w.kind("forged")
				}
			}
		}
		if len(batchOut) == 0 {
			continue
		}
		if int64(len(batchOut)) > atomic.LoadInt64(&w.maxBatch) {
			atomic.StoreInt64(&w.maxBatch, int64(len(batchOut)))
		}
		// reorder
		perm := rng.Perm(len(batchOut))
		shuffled := make([]delivery, len(batchOut))
		for i, j := range perm {
			shuffled[i] = batchOut[j]
		}
		// partial batches, delivered by concurrent workers with yields in between
		nw := 1 + rng.Intn(p.workers)
		if nw > len(shuffled) {
			nw = len(shuffled)
		}
		pauses := make([][]int, nw)
		parts := make([][]delivery, nw)
		for i, d := range shuffled {
			k := i % nw
			parts[k] = append(parts[k], d)
			pauses[k] = append(pauses[k], rng.Intn(12))
		}
		var wg sync.WaitGroup
		for k := 0; k < nw; k++ {
			wg.Add(1)
			go func(part []delivery, pz []int) {
				defer wg.Done()
				for i, d := range part {
					switch pz[i] {
					case 0:
						time.Sleep(200 * time.Microsecond)
					case 1, 2:
						runtime.Gosched()
					}
					w.receive(d)
				}
			}(parts[k], pauses[k])
		}
		wg.Wait()
	}
}

// resolve asks the real TrieNodeResolver for the hashes and returns the nodes of its response batch
func (w *world) resolve(hashes []string) [][]byte {
	hs := make([][]byte, len(hashes))
	for i, h := range hashes {
		hs[i] = []byte(h)
	}
	buffHashes, err := msh.Marshal(&batch.Batch{Data: hs})
	if err != nil {
		return nil
	}
	rd := &dataRetriever.RequestData{Type: dataRetriever.HashArrayType, Value: buffHashes}
	rdBuf, err := msh.Marshal(rd)
	if err != nil {
		return nil
	}
	w.resOut = nil
	_ = w.resolver.ProcessReceivedMessage(&drmock.P2PMessageMock{DataField: rdBuf, PeerField: core.PeerID("requester")}, core.PeerID("requester"))
	out := w.resOut
	w.resOut = nil
	return out
}
