package main

// Forged / malformed / non-canonical trie node messages and a structural classifier of message bytes
// (used to key panics by WHAT the bytes are, not by which generator produced them).
//
// Wire format of a trie node (data/trie/node.go, node.proto): protobuf body followed by one type byte
// (0 extension, 1 leaf, 2 branch). Branch: repeated bytes field 1 (17 entries); extension: Key=1,
// EncodedChild=2; leaf: Key=1, Value=2.

import (
	"fmt"

	"verif/internal/vk"
)

const (
	tExt    = 0
	tLeaf   = 1
	tBranch = 2
)

type pbField struct {
	num  uint64
	wire uint64
	val  []byte // payload for wire 2, raw varint bytes for wire 0
}

func putVarint(b []byte, v uint64) []byte {
	for v >= 0x80 {
		b = append(b, byte(v)|0x80)
		v >>= 7
	}
	return append(b, byte(v))
}

// overlong varint: same value padded with continuation bytes (pad extra bytes)
func putVarintPadded(b []byte, v uint64, pad int) []byte {
	for v >= 0x80 {
		b = append(b, byte(v)|0x80)
		v >>= 7
	}
	if pad <= 0 {
		return append(b, byte(v))
	}
	b = append(b, byte(v)|0x80)
	for i := 0; i < pad-1; i++ {
		b = append(b, 0x80)
	}
	return append(b, 0x00)
}

func readVarint(b []byte) (uint64, int) {
	var v uint64
	for i := 0; i < len(b) && i < 10; i++ {
		v |= uint64(b[i]&0x7f) << (7 * uint(i))
		if b[i] < 0x80 {
			return v, i + 1
		}
	}
	return 0, 0
}

func encBytesField(b []byte, num int, payload []byte) []byte {
	b = putVarint(b, uint64(num)<<3|2)
	b = putVarint(b, uint64(len(payload)))
	return append(b, payload...)
}

// parseBody is a lenient protobuf field splitter (only wire types 0 and 2 are understood)
func parseBody(body []byte) ([]pbField, bool) {
	var out []pbField
	for len(body) > 0 {
		tag, n := readVarint(body)
		if n == 0 {
			return out, false
		}
		body = body[n:]
		f := pbField{num: tag >> 3, wire: tag & 7}
		switch f.wire {
		case 0:
			_, m := readVarint(body)
			if m == 0 {
				return out, false
			}
			f.val = body[:m]
			body = body[m:]
		case 2:
			l, m := readVarint(body)
			if m == 0 || l > uint64(len(body)-m) {
				return out, false
			}
			f.val = body[m : m+int(l)]
			body = body[m+int(l):]
		default:
			return out, false
		}
		out = append(out, f)
	}
	return out, true
}

// classify names the structure of a message; stable strings (they become part of violation keys)
func classify(msg []byte) string {
	if len(msg) == 0 {
		return "empty-message"
	}
	t := msg[len(msg)-1]
	fields, ok := parseBody(msg[:len(msg)-1])
	n1, n2 := 0, 0
	e1, e2 := true, true // all field-1 / field-2 payloads empty
	for _, f := range fields {
		if f.wire != 2 {
			continue
		}
		if f.num == 1 {
			n1++
			if len(f.val) > 0 {
				e1 = false
			}
		}
		if f.num == 2 {
			n2++
			if len(f.val) > 0 {
				e2 = false
			}
		}
	}
	suffix := ""
	if !ok {
		suffix = "-undecodable-tail"
	}
	switch t {
	case tBranch:
		switch {
		case n1 < 17:
			return "short-branch-children" + suffix
		case n1 > 17:
			return "long-branch-children" + suffix
		default:
			return "branch-17-children" + suffix
		}
	case tExt:
		switch {
		case n2 == 0 || e2:
			return "extension-without-child" + suffix
		case n1 == 0 || e1:
			return "extension-without-key" + suffix
		default:
			return "extension" + suffix
		}
	case tLeaf:
		if n2 == 0 || e2 {
			return "leaf-without-value" + suffix
		}
		return "leaf" + suffix
	}
	return "unknown-type-byte" + suffix
}

// ---------------------------------------------------------------------------------------
// non-canonical re-encodings of a genuine node: same decoded content, different bytes

func nonCanonical(rng *vk.Rand, genuine []byte) ([]byte, string) {
	if len(genuine) < 2 {
		return nil, ""
	}
	t := genuine[len(genuine)-1]
	fields, ok := parseBody(genuine[:len(genuine)-1])
	if !ok || len(fields) == 0 {
		return nil, ""
	}
	kind := rng.Intn(5)
	var out []byte
	emit := func(f pbField, padTag, padLen int) {
		out = putVarintPadded(out, f.num<<3|f.wire, padTag)
		if f.wire == 2 {
			out = putVarintPadded(out, uint64(len(f.val)), padLen)
		}
		out = append(out, f.val...)
	}
	unknown := func() {
		num := uint64(3 + rng.Intn(12))
		if rng.Bool() {
			out = putVarint(out, num<<3|0)
			out = putVarint(out, rng.U64()>>uint(rng.Intn(60)))
		} else {
			out = encBytesField(out, int(num), rng.Bytes(rng.Intn(40)))
		}
	}
	label := ""
	switch kind {
	case 0: // padded length varints
		label = "overlong-length-varint"
		which := rng.Intn(len(fields))
		for i, f := range fields {
			if i == which {
				emit(f, 0, 1+rng.Intn(3))
			} else {
				emit(f, 0, 0)
			}
		}
	case 1: // padded tag varint
		label = "overlong-tag-varint"
		which := rng.Intn(len(fields))
		for i, f := range fields {
			if i == which {
				emit(f, 1+rng.Intn(2), 0)
			} else {
				emit(f, 0, 0)
			}
		}
	case 2: // unknown fields mixed in
		label = "unknown-fields"
		for _, f := range fields {
			if rng.Chance(1, 3) {
				unknown()
			}
			emit(f, 0, 0)
		}
		unknown()
	case 3: // reordered scalar fields (leaf / extension only)
		if t == tBranch || len(fields) != 2 {
			return nonCanonicalFallback(rng, fields, t)
		}
		label = "fields-reordered"
		emit(fields[1], 0, 0)
		emit(fields[0], 0, 0)
	case 4: // a decoy occurrence of a scalar field before the real one (last one wins)
		if t == tBranch {
			return nonCanonicalFallback(rng, fields, t)
		}
		label = "duplicated-scalar-field"
		decoy := fields[rng.Intn(len(fields))]
		decoy.val = rng.Bytes(1 + rng.Intn(33))
		emit(decoy, 0, 0)
		for _, f := range fields {
			emit(f, 0, 0)
		}
	}
	out = append(out, t)
	return out, label
}

func nonCanonicalFallback(rng *vk.Rand, fields []pbField, t byte) ([]byte, string) {
	var out []byte
	for _, f := range fields {
		out = putVarint(out, f.num<<3|f.wire)
		if f.wire == 2 {
			out = putVarintPadded(out, uint64(len(f.val)), 1)
		}
		out = append(out, f.val...)
	}
	out = append(out, t)
	return out, "overlong-length-varint"
}

// ---------------------------------------------------------------------------------------
// structured malformed bodies

var typeBytes = []byte{0, 1, 2, 3, 4, 7, 0x80, 255}

func anyTypeByte(rng *vk.Rand) byte {
	if rng.Chance(3, 4) {
		return byte(rng.Intn(3))
	}
	if rng.Bool() {
		return typeBytes[rng.Intn(len(typeBytes))]
	}
	return byte(rng.Intn(256))
}

func childPayload(rng *vk.Rand, style int) []byte {
	switch style {
	case 0:
		return nil
	case 1:
		return rng.Bytes(32)
	case 2:
		return rng.Bytes(1 + rng.Intn(5))
	default:
		return rng.Bytes(33 + rng.Intn(40))
	}
}

// branchBody builds a body with k field-1 entries following a pattern
func branchBody(rng *vk.Rand, k int, pattern int) []byte {
	var b []byte
	for i := 0; i < k; i++ {
		var p []byte
		switch pattern {
		case 0: // all 32-byte hashes
			p = childPayload(rng, 1)
		case 1: // all empty
			p = nil
		case 2: // first children empty, later ones set
			if i >= k/2 {
				p = childPayload(rng, 1)
			}
		case 3: // sparse
			if rng.Chance(1, 4) {
				p = childPayload(rng, 1)
			}
		case 4: // odd sizes
			p = childPayload(rng, 2+rng.Intn(2))
		case 5: // exactly one child set
			if i == k-1 {
				p = childPayload(rng, 1)
			}
		}
		b = encBytesField(b, 1, p)
	}
	return b
}

// forged returns one structured malformed (or valid-looking but unrelated) message and a generator label
func forged(rng *vk.Rand, genuinePool [][]byte) ([]byte, string) {
	pick := func() []byte {
		if len(genuinePool) == 0 {
			return []byte{0x0a, 0x01, 0x05, 0x12, 0x01, 0x07, tLeaf}
		}
		g := genuinePool[rng.Intn(len(genuinePool))]
		return append([]byte{}, g...)
	}
	switch rng.Intn(16) {
	case 0: // empty body for every type byte
		return []byte{anyTypeByte(rng)}, "empty-body"
	case 1: // branch with 0..16 children
		k := rng.Intn(17)
		t := byte(tBranch)
		if rng.Chance(1, 8) {
			t = anyTypeByte(rng)
		}
		return append(branchBody(rng, k, rng.Intn(6)), t), fmt.Sprintf("branch-%d-children", k)
	case 2: // branch with more than 17 children
		k := []int{18, 19, 20, 33, 34, 64}[rng.Intn(6)]
		return append(branchBody(rng, k, rng.Intn(6)), tBranch), "branch-too-many-children"
	case 3: // branch with 17 children, degenerate content
		return append(branchBody(rng, 17, 1+rng.Intn(5)), tBranch), "branch-17-degenerate"
	case 4: // valid-looking branch with random child hashes
		return append(branchBody(rng, 17, []int{0, 3}[rng.Intn(2)]), tBranch), "branch-17-random-children"
	case 5: // extension variants
		var b []byte
		v := rng.Intn(5)
		switch v {
		case 0: // no child
			b = encBytesField(b, 1, rng.Bytes(1+rng.Intn(10)))
		case 1: // no key
			b = encBytesField(b, 2, rng.Bytes(32))
		case 2: // empty key, explicit
			b = encBytesField(b, 1, nil)
			b = encBytesField(b, 2, rng.Bytes(32))
		case 3: // child of odd length
			b = encBytesField(b, 1, rng.Bytes(1+rng.Intn(10)))
			b = encBytesField(b, 2, rng.Bytes(1+rng.Intn(70)))
		case 4: // well-formed, random child
			b = encBytesField(b, 1, nibbles(rng, 1+rng.Intn(10)))
			b = encBytesField(b, 2, rng.Bytes(32))
		}
		return append(b, tExt), fmt.Sprintf("extension-variant-%d", v)
	case 6: // leaf variants
		var b []byte
		v := rng.Intn(4)
		switch v {
		case 0: // no value
			b = encBytesField(b, 1, nibbles(rng, 1+rng.Intn(10)))
		case 1: // no key
			b = encBytesField(b, 2, rng.Bytes(1+rng.Intn(20)))
		case 2: // explicit empty value
			b = encBytesField(b, 1, nibbles(rng, 1+rng.Intn(10)))
			b = encBytesField(b, 2, nil)
		case 3: // well-formed random leaf
			b = encBytesField(b, 1, append(nibbles(rng, 1+rng.Intn(10)), 16))
			b = encBytesField(b, 2, rng.Bytes(1+rng.Intn(20)))
		}
		return append(b, tLeaf), fmt.Sprintf("leaf-variant-%d", v)
	case 7: // oversized / broken varints
		var b []byte
		v := rng.Intn(7)
		switch v {
		case 0: // length varint of ten 0xff
			b = append(b, 0x0a, 0xff, 0xff, 0xff, 0xff, 0xff, 0xff, 0xff, 0xff, 0xff, 0x01)
		case 1: // length larger than the rest
			b = append(b, 0x0a)
			b = putVarint(b, uint64(1000+rng.Intn(1<<20)))
			b = append(b, rng.Bytes(rng.Intn(8))...)
		case 2: // length 2^63
			b = append(b, 0x12)
			b = putVarint(b, 1<<63)
		case 3: // tag with eleven continuation bytes
			for i := 0; i < 11; i++ {
				b = append(b, 0x80)
			}
			b = append(b, 0x01)
		case 4: // field number 0
			b = append(b, 0x02, 0x00)
		case 5: // group / reserved wire types
			b = append(b, byte(1<<3|3+rng.Intn(5)), 0x00, 0x00)
		case 6: // length 2^31..2^32
			b = append(b, 0x0a)
			b = putVarint(b, uint64(1<<31)+uint64(rng.Intn(1<<30)))
			b = append(b, rng.Bytes(3)...)
		}
		return append(b, anyTypeByte(rng)), fmt.Sprintf("broken-varint-%d", v)
	case 8: // type confusion: genuine body, other type byte
		g := pick()
		old := g[len(g)-1]
		nt := anyTypeByte(rng)
		for nt == old {
			nt = anyTypeByte(rng)
		}
		g[len(g)-1] = nt
		return g, "type-byte-swapped"
	case 9: // truncated genuine node (type byte kept)
		g := pick()
		if len(g) < 3 {
			return []byte{g[len(g)-1]}, "truncated"
		}
		cut := rng.Intn(len(g) - 1)
		out := append([]byte{}, g[:cut]...)
		return append(out, g[len(g)-1]), "truncated"
	case 10: // bit flips
		g := pick()
		for i := 0; i <= rng.Intn(3); i++ {
			g[rng.Intn(len(g))] ^= byte(1 << uint(rng.Intn(8)))
		}
		return g, "bit-flipped"
	case 11: // random bytes, mostly with a plausible type byte
		n := 1 + rng.Intn(120)
		b := rng.Bytes(n)
		if rng.Chance(3, 4) {
			b[n-1] = byte(rng.Intn(3))
		}
		return b, "random-bytes"
	case 12: // genuine with garbage inserted before the type byte
		g := pick()
		t := g[len(g)-1]
		out := append([]byte{}, g[:len(g)-1]...)
		out = append(out, rng.Bytes(1+rng.Intn(6))...)
		return append(out, t), "trailing-garbage"
	case 13: // branch with 16 / 18 children made from a genuine branch (drop or repeat the last entry)
		for try := 0; try < 8; try++ {
			g := pick()
			if g[len(g)-1] != tBranch {
				continue
			}
			fields, ok := parseBody(g[:len(g)-1])
			if !ok || len(fields) != 17 {
				continue
			}
			var out []byte
			n := 16
			if rng.Bool() {
				n = 18
			}
			for i := 0; i < n; i++ {
				f := fields[i%17]
				out = encBytesField(out, 1, f.val)
			}
			return append(out, tBranch), fmt.Sprintf("genuine-branch-resized-%d", n)
		}
		return append(branchBody(rng, 16, 0), tBranch), "branch-16-children"
	case 14: // single bytes and two-byte messages
		if rng.Bool() {
			return []byte{byte(rng.Intn(4))}, "single-byte"
		}
		return []byte{byte(rng.Intn(256)), byte(rng.Intn(3))}, "two-bytes"
	default: // one empty child / few empty children, branch type
		k := 1 + rng.Intn(3)
		return append(branchBody(rng, k, 1), tBranch), "branch-few-empty-children"
	}
}

func nibbles(rng *vk.Rand, n int) []byte {
	b := make([]byte, n)
	for i := range b {
		b[i] = byte(rng.Intn(16))
	}
	return b
}
