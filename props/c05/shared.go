package main

// Phase "one syncer instance, several StartSyncing calls": the syncer types are reusable objects (StartSyncing
// re-initialises the frontier) and the double-list syncer documents that "all concurrent calls will be
// serialized". Two or three tries are synced through ONE instance into one destination DB under the hostile
// schedule: overlapping calls for the double-list syncer (the next call is issued while the previous one is
// waiting for nodes), back-to-back calls for the first-version syncer (its StartSyncing writes rootHash/rootFound
// without a lock, so overlapping calls on one instance are outside what that type supports).
// Oracle: every call that returns nil is judged by the completeness oracle for ITS root.

import (
	"context"
	"fmt"
	"sort"
	"sync"
	"sync/atomic"
	"time"

	"github.com/ElrondNetwork/elrond-go/data"
	"github.com/ElrondNetwork/elrond-go/data/trie"
	"github.com/ElrondNetwork/elrond-go/data/trie/statistics"
	"github.com/ElrondNetwork/elrond-go/process/interceptors/processor"
	"github.com/ElrondNetwork/elrond-go/storage/memorydb"
	"verif/internal/vk"
)

// newWorld builds the simulated network for a set of tries that may legitimately be requested; junk holds valid
// nodes of unrelated tries (delivered unrequested, material for forgeries)
func newWorld(targets []*source, junk ...map[string][]byte) (*world, int) {
	w := &world{
		nodes: map[string][]byte{}, children: map[string][]string{},
		byGen: map[string]int{}, accByGen: map[string]int{}, kinds: map[string]bool{},
	}
	maxNode := 0
	for _, t := range targets {
		for h, b := range t.nodes {
			w.nodes[h] = b
			w.children[h] = t.children[h]
		}
		if t.maxNode > maxNode {
			maxNode = t.maxNode
		}
	}
	for h := range w.nodes {
		w.nodeList = append(w.nodeList, h)
	}
	sort.Strings(w.nodeList)
	for _, h := range w.nodeList {
		if len(w.nodes[h]) < 5000 {
			w.pool = append(w.pool, w.nodes[h])
		}
	}
	for _, m := range junk {
		hs := make([]string, 0, len(m))
		for h := range m {
			hs = append(hs, h)
		}
		sort.Strings(hs)
		for _, h := range hs {
			if _, ok := w.nodes[h]; !ok && len(m[h]) < 5000 {
				w.foreign = append(w.foreign, m[h])
				w.pool = append(w.pool, m[h])
			}
		}
	}
	return w, maxNode
}

func (n *simNet) numCalls() int64 {
	n.mu.Lock()
	defer n.mu.Unlock()
	return n.calls
}

type sharedParams struct {
	version    int
	concurrent bool // overlapping calls; false = back-to-back calls on the same instance
	cacherKind int
	cacherCap  int
	hardCap    int
	sched      schedParams
}

const classOneSyncer = " class=several-calls-on-one-syncer-instance"

func runShared(r *vk.Run, c *vk.Case, rng *vk.Rand, targets []*source, junk *source, p sharedParams) {
	w, maxNode := newWorld(targets, junk.nodes)
	w.cacher = makeCacher(syncParams{cacherKind: p.cacherKind, cacherCap: p.cacherCap}, maxNode)
	proc, err := processor.NewTrieNodesInterceptorProcessor(w.cacher)
	if err != nil {
		panic(err)
	}
	w.proc = proc
	dst := &recDB{inner: memorydb.New()}

	net := newSimNet()
	ctx, cancel := context.WithCancel(context.Background())
	defer cancel()
	var deadlineHit int32
	stop := make(chan struct{})
	abandon := make(chan struct{})
	schedDone := make(chan struct{})
	schedRng := rng.Fork()
	var schedPanic string
	go func() {
		defer close(schedDone)
		pp, v, st := vk.Guard(func() {
			w.runScheduler(schedRng, net, p.sched, stop, func() {
				atomic.StoreInt32(&deadlineHit, 1)
				cancel()
			}, func() { close(abandon) })
		})
		if pp {
			schedPanic = fmt.Sprintf("%v\n%s", v, st)
			cancel()
		}
	}()

	arg := trie.ArgTrieSyncer{
		Marshalizer: msh, Hasher: hsh, DB: dst, RequestHandler: net, InterceptedNodes: w.cacher,
		ShardId: 0, Topic: topicName, TrieSyncStatistics: statistics.NewTrieSyncStatistics(),
		TimeoutBetweenTrieNodesCommits: 60 * time.Second, MaxHardCapForMissingNodes: p.hardCap,
	}
	var syncer data.TrieSyncer
	if p.version == 1 {
		syncer, err = trie.NewTrieSyncer(arg)
	} else {
		syncer, err = trie.NewDoubleListTrieSyncer(arg)
	}
	if err != nil {
		panic(err)
	}
	if !trie.VerifSetSyncerPollInterval(syncer, pollInterval) {
		panic("poll interval hook did not recognise the syncer")
	}

	// bookkeeping of the call intervals (harness side): a call "overlaps" when it is invoked while another one runs
	var evMu sync.Mutex
	running, overlaps := 0, 0
	outcomes := make([]syncOutcome, len(targets))
	doneCh := make([]chan struct{}, len(targets))
	extra := make([]int, len(targets))
	for i := range targets {
		doneCh[i] = make(chan struct{})
		extra[i] = rng.Intn(4)
	}
	var wg sync.WaitGroup
	for i, t := range targets {
		wg.Add(1)
		go func(i int, root []byte) {
			defer wg.Done()
			defer close(doneCh[i])
			if i > 0 {
				if p.concurrent {
					// issue the next call once the previous call(s) asked the network for something, i.e. while the
					// first trie cannot be complete yet (bounded wait: an early return of the others is fine too)
					for k := 0; k < 200 && net.numCalls() < int64(i); k++ {
						time.Sleep(500 * time.Microsecond)
					}
					time.Sleep(time.Duration(extra[i]) * time.Millisecond)
				} else {
					select {
					case <-doneCh[i-1]:
					case <-ctx.Done():
					}
				}
			}
			evMu.Lock()
			if running > 0 {
				overlaps++
			}
			running++
			evMu.Unlock()
			o := &outcomes[i]
			o.panicked, _, o.stack = vk.Guard(func() {
				o.err = syncer.StartSyncing(append([]byte{}, root...), ctx)
			})
			evMu.Lock()
			running--
			evMu.Unlock()
		}(i, t.root)
	}
	allDone := make(chan struct{})
	go func() { wg.Wait(); close(allDone) }()
	hung := false
	select {
	case <-allDone:
	case <-abandon:
		hung = true
	}
	close(stop)
	<-schedDone
	vn := fmt.Sprintf("v%d", p.version)
	r.Count("one_syncer_cases_"+vn, 1)
	if hung {
		r.Count("one_syncer_calls_inconclusive:no-return-after-context-cancel", len(targets))
		return
	}
	evMu.Lock()
	nOverlap := overlaps
	evMu.Unlock()
	r.Count("one_syncer_calls_"+vn, len(targets))
	r.Count("one_syncer_calls_invoked_while_another_call_was_running_"+vn, nOverlap)
	r.Count("deliveries", int(w.nDeliv))
	r.Count("deliveries_accepted_into_cacher", int(w.nAccepted))
	r.Count("deliveries_rejected_by_receive_path", int(w.nRejected))
	r.Count("request_calls", int(net.calls))
	r.Count("requested_hashes", int(net.hashes))
	r.Count("db_dst_puts", int(dst.puts))
	r.Eval(int(w.nDeliv))

	baseDetail := func() map[string]interface{} {
		roots := []string{}
		for _, t := range targets {
			roots = append(roots, vk.Hex(t.root))
		}
		return map[string]interface{}{
			"phase": "several StartSyncing calls on ONE syncer instance", "syncer_version": p.version, "overlapping_calls": p.concurrent,
			"calls_invoked_while_another_was_running": nOverlap, "roots_in_call_order": roots,
			"cacher": cacherNames[p.cacherKind], "cacher_cap": p.cacherCap, "hard_cap": p.hardCap, "sched": fmt.Sprintf("%+v", p.sched),
		}
	}
	if schedPanic != "" {
		d := baseDetail()
		d["stack"] = schedPanic
		r.Violation(c.Idx, "panic-in-harness-scheduler", "the harness scheduler panicked (harness bug or panic outside the guarded receive path)", d)
	}
	if len(dst.bad) > 0 {
		d := baseDetail()
		d["entries"] = dst.bad
		r.Violation(c.Idx, "foreign-node-stored-under-wrong-hash", "syncer wrote a DB entry whose key is not the hash of its value: "+dst.bad[0], d)
	}
	completed := 0
	for i, t := range targets {
		o := outcomes[i]
		if o.panicked {
			d := baseDetail()
			d["stack"] = o.stack
			d["call_index"] = i
			r.Violation(c.Idx, "panic-in-syncer:"+vk.TopFrame(o.stack)+classOneSyncer, "StartSyncing panicked at "+vk.TopFrame(o.stack), d)
			continue
		}
		if o.err != nil {
			reason := o.err.Error()
			if atomic.LoadInt32(&deadlineHit) == 1 && o.err == trie.ErrContextClosing {
				reason = "virtual-deadline"
			}
			r.Count("one_syncer_calls_inconclusive:"+reason, 1)
			continue
		}
		completed++
		r.Count("one_syncer_calls_completed_"+vn, 1)
		idx := i
		checkSyncedClass(r, c, dst, t, classOneSyncer, "StartSyncing", func() map[string]interface{} {
			d := baseDetail()
			d["call_index"] = idx
			d["root"] = vk.Hex(t.root)
			d["leaves"] = len(t.model)
			d["source_nodes"] = len(t.nodes)
			return d
		})
	}
	if completed < 2 {
		r.Trivial()
		return
	}
	mode := "back-to-back"
	if nOverlap > 0 {
		mode = "overlapping"
	}
	r.Shape(fmt.Sprintf("one-syncer v%d %s calls%d %s cap%d [%s]", p.version, mode, len(targets), cacherNames[p.cacherKind], bucket(p.hardCap), hostileKinds(w)))
}

// sharedCase generates one case of this phase
func sharedCase(r *vk.Run, c *vk.Case) {
	rng := c.Rng
	nCalls := 2 + rng.Intn(2)
	var targets []*source
	for i := 0; i < nCalls; i++ {
		n := 3 + rng.Intn(60)
		if rng.Chance(1, 4) {
			n = 60 + rng.Intn(120)
		}
		targets = append(targets, buildSource(rng, n, false, false))
	}
	if rng.Chance(1, 3) {
		// a later call for a trie that shares pairs (and therefore nodes) with the first one
		targets[nCalls-1] = buildForeign(rng, targets[0], 3+rng.Intn(60))
	}
	junk := buildForeign(rng, targets[0], 3+rng.Intn(30))
	for _, t := range targets {
		r.Count("source_tries", 1)
		r.Count("source_nodes_total", len(t.nodes))
	}
	versions := []int{2, 2, 1}
	p := sharedParams{version: versions[rng.Intn(len(versions))]}
	p.concurrent = p.version == 2
	p.cacherKind = []int{0, 1, 2}[rng.Intn(3)]
	p.cacherCap = 1 + rng.Intn(8)
	p.hardCap = []int{1, 3, 20, 500, 10000}[rng.Intn(5)]
	p.sched = schedParams{
		maxDrops: rng.Intn(4), maxDelay: 1 + rng.Intn(4), dupPct: []int{0, 10, 50}[rng.Intn(3)],
		junkPerRnd: []int{0, 2, 6}[rng.Intn(3)], aheadPct: []int{0, 20, 60}[rng.Intn(3)],
		nonCanonPct: []int{0, 10}[rng.Intn(2)], lateDupPct: []int{0, 20}[rng.Intn(2)],
		workers: 1 + rng.Intn(3), maxRounds: 6000,
	}
	runShared(r, c, rng.Fork(), targets, junk, p)
}
