// C08 — a value written to an account's storage is read back byte-for-byte before SaveAccount, after
// SaveAccount, after Commit and after reloading; a deleted key reads as empty; reuse or mutation of
// the caller's key/value buffers does not change what was stored.
// Monitor shape: reference model + aliasing hostility + clean twin (metamorphic).
// World A receives every key/value through hostile caller buffers (spare capacity with canaries,
// key and value adjacent in one buffer, one arena reused for several writes, buffers scribbled over
// after the call). World B (the clean twin) receives the same logical writes through fresh exact
// copies. Oracles: (1) RetrieveValue == bytes passed at write time at every read point, (2) the
// caller's backing arrays are byte-identical before and after every call, (3) data-trie root and
// state root of A equal those of B (what is stored does not depend on the caller's buffers).
package main

import (
	"bytes"
	"errors"
	"fmt"
	"sort"

	logger "github.com/ElrondNetwork/elrond-go-logger"
	"github.com/ElrondNetwork/elrond-go/core"
	"github.com/ElrondNetwork/elrond-go/data"
	"github.com/ElrondNetwork/elrond-go/data/state"

	"verif/internal/acctmodel"
	"verif/internal/vk"
)

func cp(b []byte) []byte {
	o := make([]byte, len(b))
	copy(o, b)
	return o
}

func short(b []byte) string {
	if len(b) > 24 {
		return fmt.Sprintf("%x..(%d bytes)", b[:24], len(b))
	}
	return fmt.Sprintf("%x", b)
}

// callerBufs is what a hostile caller hands to SaveKeyValue: two slices into one or two backing arrays
type callerBufs struct {
	pattern string
	key     []byte
	val     []byte
	arrays  [][]byte // the complete backing arrays (to check and to scribble over)
}

var patterns = []string{"exact", "spare-separate", "adjacent-key-first", "adjacent-value-first", "cap-limited-subslices", "arena-reused"}

// mkBufs lays key and value out in caller memory according to the pattern. Bytes outside the
// slices are canaries.
func mkBufs(rng *vk.Rand, pattern string, k, v []byte, arena []byte) callerBufs {
	spare := rng.Range(1, 96)
	fill := func(b []byte) {
		x := byte(rng.Intn(256))
		for i := range b {
			b[i] = 0xC0 ^ x ^ byte(i*7)
		}
	}
	switch pattern {
	case "exact":
		return callerBufs{pattern: pattern, key: cp(k), val: cp(v)}
	case "spare-separate":
		a1 := make([]byte, len(k)+spare)
		a2 := make([]byte, len(v)+rng.Range(1, 96))
		fill(a1)
		fill(a2)
		copy(a1, k)
		copy(a2, v)
		return callerBufs{pattern: pattern, key: a1[:len(k)], val: a2[:len(v)], arrays: [][]byte{a1, a2}}
	case "adjacent-key-first":
		a := make([]byte, len(k)+len(v)+spare)
		fill(a)
		copy(a, k)
		copy(a[len(k):], v)
		return callerBufs{pattern: pattern, key: a[:len(k)], val: a[len(k) : len(k)+len(v)], arrays: [][]byte{a}}
	case "adjacent-value-first":
		a := make([]byte, len(k)+len(v)+spare)
		fill(a)
		copy(a, v)
		copy(a[len(v):], k)
		return callerBufs{pattern: pattern, key: a[len(v) : len(v)+len(k)], val: a[:len(v)], arrays: [][]byte{a}}
	case "cap-limited-subslices":
		pre := rng.Range(0, 16)
		a := make([]byte, pre+len(k)+len(v)+spare)
		fill(a)
		copy(a[pre:], k)
		copy(a[pre+len(k):], v)
		return callerBufs{pattern: pattern, key: a[pre : pre+len(k) : pre+len(k)], val: a[pre+len(k) : pre+len(k)+len(v) : pre+len(k)+len(v)], arrays: [][]byte{a}}
	default: // arena-reused: the same backing buffer for every write of the case
		if len(k)+len(v) > len(arena) {
			return mkBufs(rng, "spare-separate", k, v, arena)
		}
		copy(arena, k)
		copy(arena[len(k):], v)
		return callerBufs{pattern: "arena-reused", key: arena[:len(k)], val: arena[len(k) : len(k)+len(v)], arrays: [][]byte{arena}}
	}
}

type slot struct {
	val    []byte // bytes passed at write time (own copy); nil/empty = deleted or never written
	origin []byte // the caller's value slice as it was passed to world A (same memory)
	pat    string
	writes int
	// the SaveKeyValue call that wrote this slot changed the caller's memory
	callOverwroteCaller bool
	prev                []byte // saved value of the key before this write
}

type acct struct {
	addr  []byte
	slots map[string]*slot // what a reloaded account must read (saved state)
	saved bool             // SaveAccount with storage writes happened: the account has a data trie root
}

func main() {
	logger.SetLogLevel("*:NONE")
	r := vk.Start("C08")
	r.Rule("each case = 1-3 accounts in a real AccountsDB, 3-8 rounds of {load account, 1-6 SaveKeyValue calls, read all keys, SaveAccount, read again (same handle and reloaded), optionally Commit / RecreateTrie / reopen a second AccountsDB over the same DB and read again}; " +
		"keys 0-300 bytes (prefixes of each other, equal to / ending with the address), values 0-300 bytes (sometimes up to 64 KiB; ending with key||address, equal to key||address, empty = delete); " +
		"One quarter of the cases use several live handles of one account (2-3 handles loaded before any is saved, different and sometimes equal keys, saved in random order: union of the writes, last saved handle wins); one round in six holds its handles across a Commit. " +
		"caller buffer patterns: exact, spare capacity with canaries, key and value adjacent in one buffer (both orders), cap-limited sub-slices, one arena reused for all writes; buffers are scribbled over after the call with probability 1/2. " +
		"Cases 0..k-1 are the size-limit cases (value length MaxLeafSize+1 rejected; thorough: MaxLeafSize-1 and MaxLeafSize stored and read back). " +
		"Non-trivial: at least one hostile pattern was used and read back at >= 3 read points; shape = (patterns used, read points reached, value classes). " +
		"Put-fault cases: 2-5 accounts, 3-7 rounds of {2..all accounts get 1-4 writes (overwrite/delete/new key) and are saved; Commit during which the n-th storage Put (n 1-6) fails, injected through the database decorator handed to the trie storage manager}: " +
		"a Commit that reports the error is followed by RevertToSnapshot(0) and every key must read its last committed value; a Commit that reports success vouches for every saved value (read through the same AccountsDB, after RecreateTrie and through a second AccountsDB over the same DB). " +
		"Kept-reader cases: 1-2 accounts with a data trie, up to 4 kept handles per account that read every key when taken; writes (overwrite/delete/new key) go through a fresh handle or one of the kept ones and are saved, then every kept handle reads every key again; a Commit gives the kept handles up.")
	r.Assume("the harness's own copies of the written bytes are the reference",
		"only the value returned by RetrieveValue is compared (an error next to an empty value is counted, not failed)",
		"returned slices are never written to by the harness; the address buffers handed to LoadAccount are never mutated",
		"the clean twin (same logical writes through fresh exact-size copies, one fresh handle per SaveAccount) defines which data-trie / state roots are expected",
		"put-fault cases: the decorated database fails exactly one Put (nothing is written for it) and is otherwise transparent; after a Commit error the harness calls RevertToSnapshot(0) before anything else, as the block processor does",
		"kept-reader cases: handles are loaded after the account got its data trie and since the last Commit, so all of them share the data trie cached under the address; a handle with pending writes reads those, for every other key the last saved value; a kept handle is only saved with at least one pending write; the last live key of an account is never deleted",
		"multi-handle rounds only use accounts that already have a data trie root, every handle writes at least one key, all handles are loaded before the first of them is saved, and the account is not loaded again between a Commit and the save of a handle held across it; through a saved handle only the keys it wrote itself are read")
	r.MinShapes(r.N(40, 200))

	nBig := r.N(1, 3)
	nCases := r.N(1200, 24000)
	// further case kinds (faults.go), appended so that the base cases keep their generator
	nFault := r.N(500, 10000)
	nReader := r.N(500, 10000)
	r.Parallel(nBig+nCases+nFault+nReader, func(c *vk.Case) {
		switch {
		case c.Idx < nBig:
			bigCase(r, c)
		case c.Idx < nBig+nCases:
			normalCase(r, c)
		case c.Idx < nBig+nCases+nFault:
			faultCase(r, c)
		default:
			readerCase(r, c)
		}
	})
	r.Finish()
}

// ---------------------------------------------------------------------------------------

type worlds struct {
	r    *vk.Run
	c    *vk.Case
	a, b *acctmodel.Env
	log  []string
	mode string // "" or " mode=multi-handle" (suffix of violation keys)
}

func (w *worlds) logf(f string, x ...interface{}) { w.log = append(w.log, fmt.Sprintf(f, x...)) }

func (w *worlds) viol(key, what string, extra map[string]interface{}) {
	m := map[string]interface{}{"trace": w.log}
	for k, v := range extra {
		m[k] = v
	}
	w.r.Violation(w.c.Idx, key, what, m)
}

func userAcc(h interface{}, err error) (state.UserAccountHandler, error) {
	if err != nil {
		return nil, err
	}
	ua, ok := h.(state.UserAccountHandler)
	if !ok {
		return nil, fmt.Errorf("not a user account: %T", h)
	}
	return ua, nil
}

// readAll compares every key ever used on the account with the reference; false = stop the case
func (w *worlds) readAll(point string, ua state.UserAccountHandler, ac *acct, rng *vk.Rand) bool {
	keys := make([]string, 0, len(ac.slots))
	for k := range ac.slots {
		keys = append(keys, k)
	}
	sort.Strings(keys)
	for _, k := range keys {
		sl := ac.slots[k]
		// the key is passed through a buffer with spare capacity: reading must not write into it
		kb := make([]byte, len(k)+rng.Range(0, 40))
		for i := range kb {
			kb[i] = 0x5A ^ byte(i)
		}
		copy(kb, k)
		before := cp(kb)
		got, err := ua.DataTrieTracker().RetrieveValue(kb[:len(k)])
		got = cp(got)
		w.r.Eval(1)
		w.r.Count("reads_at_"+point, 1)
		if !bytes.Equal(kb, before) {
			w.viol("read-key-buffer-overwritten", fmt.Sprintf("%s: RetrieveValue wrote into the caller's key buffer", point), map[string]interface{}{"key": short([]byte(k))})
			return false
		}
		if len(sl.val) == 0 {
			if err != nil {
				w.r.Count("empty_value_with_error", 1)
			}
			if len(got) != 0 {
				w.viol("deleted-key-not-empty at="+point+w.mode, fmt.Sprintf("%s: key %s was deleted/never written but reads %s", point, short([]byte(k)), short(got)), map[string]interface{}{"key": short([]byte(k)), "got": short(got)})
				return false
			}
			continue
		}
		if bytes.Equal(got, sl.val) {
			continue
		}
		key := "value-mismatch at=" + point + w.mode
		if w.mode != "" && (len(got) == 0 || bytes.Equal(got, sl.prev)) {
			key = "value-lost" + w.mode // the write is gone: the key reads empty or its previous saved value
		}
		if sl.origin != nil && !bytes.Equal(sl.origin, sl.val) && bytes.Equal(got, sl.origin) {
			key = "stored-value-aliases-caller-buffer"
		} else if sl.callOverwroteCaller {
			key = "stored-value-corrupted-by-caller-buffer-overwrite"
		}
		w.viol(key, fmt.Sprintf("%s: key %s (pattern %s) reads %s, written %s (error %v)", point, short([]byte(k)), sl.pat, short(got), short(sl.val), err),
			map[string]interface{}{"point": point, "key": short([]byte(k)), "got": short(got), "want": short(sl.val), "pattern": sl.pat, "caller_buffer_now": short(sl.origin)})
		return false
	}
	return true
}

func genKey(rng *vk.Rand, addr []byte, pool [][]byte) []byte {
	switch x := rng.Intn(20); {
	case x == 0:
		return []byte{}
	case x < 8:
		return rng.Bytes(rng.Range(1, 8))
	case x < 11:
		return rng.Bytes(32)
	case x < 13:
		return rng.Bytes(rng.Range(33, 300))
	case x == 13:
		return cp(addr)
	case x == 14:
		return append(rng.Bytes(rng.Range(1, 6)), addr...)
	case x < 18 && len(pool) > 0: // prefix or extension of an existing key
		p := pool[rng.Intn(len(pool))]
		if len(p) > 1 && rng.Bool() {
			return cp(p[:rng.Range(1, len(p)-1)])
		}
		return append(cp(p), rng.Bytes(rng.Range(1, 3))...)
	default:
		return rng.Bytes(rng.Range(1, 64))
	}
}

func genVal(rng *vk.Rand, key, addr []byte) (v []byte, class string) {
	switch x := rng.Intn(20); {
	case x < 4:
		return []byte{}, "delete"
	case x < 6:
		return append(append(rng.Bytes(rng.Range(1, 20)), key...), addr...), "tail=key||addr"
	case x == 6:
		return append(cp(key), addr...), "=key||addr"
	case x == 7:
		return append(rng.Bytes(rng.Range(0, 5)), addr...), "tail=addr"
	case x == 8:
		return rng.Bytes(1), "1byte"
	case x == 9:
		return rng.Bytes(rng.Range(301, 65536)), "large"
	case x == 10:
		n := len(key) + len(addr)
		return rng.Bytes(rng.Range(maxInt(1, n-1), n+1)), "len~tail"
	default:
		return rng.Bytes(rng.Range(1, 300)), "random"
	}
}

func maxInt(a, b int) int {
	if a > b {
		return a
	}
	return b
}

func normalCase(r *vk.Run, c *vk.Case) {
	rng := c.Rng
	opt := acctmodel.Options{MaxTrieLevelInMemory: uint([]int{1, 2, 5}[rng.Intn(3)])}
	if rng.Chance(1, 5) {
		opt.Pruning = true
	}
	a, err := acctmodel.NewEnv(opt)
	if err != nil {
		r.Inconclusive("environment: " + err.Error())
		return
	}
	defer a.Close()
	b, err := acctmodel.NewEnv(opt)
	if err != nil {
		r.Inconclusive("environment: " + err.Error())
		return
	}
	defer b.Close()
	w := &worlds{r: r, c: c, a: a, b: b}

	nAcc := rng.Range(1, 3)
	accts := make([]*acct, nAcc)
	for i := range accts {
		accts[i] = &acct{addr: rng.Bytes(32), slots: map[string]*slot{}}
	}
	var pool [][]byte
	arena := make([]byte, rng.Range(64, 1024))
	scribble := func(bufs callerBufs) {
		for _, arr := range bufs.arrays {
			x := byte(1 + rng.Intn(255))
			for i := range arr {
				arr[i] ^= x
			}
		}
		if bufs.arrays == nil { // exact: the caller still owns the two slices
			for i := range bufs.key {
				bufs.key[i] ^= 0xFF
			}
			for i := range bufs.val {
				bufs.val[i] ^= 0xFF
			}
		}
	}
	usedPatterns := map[string]bool{}
	points := map[string]bool{}
	classes := map[string]bool{}
	var lastRoot []byte

	multiCase := rng.Chance(1, 4)
	if multiCase {
		r.Count("multi_handle_cases", 1)
	}
	// commitBoth commits A and its twin and compares the roots; skip = account that must not be
	// loaded now (one of its handles is still unsaved)
	commitBoth := func(pending []callerBufs, skip *acct) bool {
		rootA, errA := a.ADB.Commit()
		rootB, errB := b.ADB.Commit()
		w.logf("  Commit -> %x %v", rootA, errA)
		if errA != nil || errB != nil {
			w.viol("commit-error", fmt.Sprintf("Commit: %v / %v", errA, errB), nil)
			return false
		}
		r.Count("commits", 1)
		lastRoot = rootA
		if rng.Bool() {
			for _, bufs := range pending {
				scribble(bufs)
			}
			w.logf("  caller scribbles over all buffers of the round (after Commit)")
		}
		r.Eval(1)
		if !bytes.Equal(rootA, rootB) {
			w.viol("state-root-differs-from-clean-twin"+w.mode, fmt.Sprintf("committed root %x, twin %x", rootA, rootB), nil)
			return false
		}
		for _, x := range accts {
			if len(x.slots) == 0 || x == skip || !x.saved {
				continue
			}
			ua, errL := userAcc(a.ADB.GetExistingAccount(cp(x.addr)))
			if errL != nil {
				w.viol("load-error"+w.mode, "GetExistingAccount after Commit: "+errL.Error(), nil)
				return false
			}
			points["committed"] = true
			if !w.readAll("committed", ua, x, rng) {
				return false
			}
		}
		return true
	}

	type write struct{ k, v []byte }
	type hnd struct {
		h      state.UserAccountHandler
		how    string
		writes []write
		dirty  map[string]*slot
	}

	rounds := rng.Range(3, 8)
	for rd := 0; rd < rounds; rd++ {
		ac := accts[rng.Intn(nAcc)]
		// multi-handle mode: the account already has a data trie (non-empty root hash), so every
		// handle loaded now gets the data trie cached under the address (loadDataTrie registers the
		// trie it recreates): the handles share ONE trie, each handle's dirty map is applied to it at
		// that handle's own SaveAccount, and every handle writes at least one key (so its save
		// refreshes the root hash it carries). Model: union of the writes, last SAVED handle wins.
		nH := 1
		w.mode = ""
		if multiCase && ac.saved {
			nH = rng.Range(2, 3)
			w.mode = " mode=multi-handle"
			r.Count("multi_handle_rounds", 1)
			points["multi-handle"] = true
		}
		// held: a Commit happens between the writes and the saves (handles held across a commit);
		// the account is not loaded again before its handles are saved
		held := rng.Chance(1, 6)
		hs := make([]*hnd, nH)
		for i := range hs {
			hs[i] = &hnd{dirty: map[string]*slot{}, how: "LoadAccount"}
			var errA error
			if ac.saved && rng.Chance(1, 3) {
				hs[i].how = "GetExistingAccount"
				hs[i].h, errA = userAcc(a.ADB.GetExistingAccount(cp(ac.addr)))
			} else {
				hs[i].h, errA = userAcc(a.ADB.LoadAccount(cp(ac.addr)))
			}
			if errA != nil {
				w.viol("load-error"+w.mode, fmt.Sprintf("%s: %v", hs[i].how, errA), nil)
				return
			}
			w.logf("round %d: handle %d of account %x via %s", rd, i, ac.addr[:4], hs[i].how)
		}
		view := func(h *hnd) *acct {
			v := &acct{addr: ac.addr, slots: map[string]*slot{}}
			for k, sl := range ac.slots {
				v.slots[k] = sl
			}
			for k, sl := range h.dirty {
				v.slots[k] = sl
			}
			return v
		}
		var pending []callerBufs
		var groupKeys [][]byte
		nW := rng.Range(nH, 6)
		for i := 0; i < nW; i++ {
			hi := i
			if i >= nH {
				hi = rng.Intn(nH)
			}
			h := hs[hi]
			var k []byte
			switch {
			case nH > 1 && len(groupKeys) > 0 && rng.Chance(1, 3): // the same key through another handle
				k = cp(groupKeys[rng.Intn(len(groupKeys))])
				r.Count("multi_handle_same_key_writes", 1)
			case len(pool) > 0 && rng.Chance(1, 2):
				k = cp(pool[rng.Intn(len(pool))])
			default:
				k = genKey(rng, ac.addr, pool)
				pool = append(pool, cp(k))
			}
			groupKeys = append(groupKeys, cp(k))
			v, class := genVal(rng, k, ac.addr)
			pat := patterns[rng.Intn(len(patterns))]
			bufs := mkBufs(rng, pat, k, v, arena)
			var before [][]byte
			for _, arr := range bufs.arrays {
				before = append(before, cp(arr))
			}
			keyBefore, valBefore := cp(bufs.key), cp(bufs.val)
			errS := h.h.DataTrieTracker().SaveKeyValue(bufs.key, bufs.val)
			h.writes = append(h.writes, write{cp(k), cp(v)})
			r.Count("writes", 1)
			r.Count("writes_pattern_"+bufs.pattern, 1)
			r.Count("writes_class_"+class, 1)
			w.logf("  handle %d: SaveKeyValue key=%s value=%s (%s) pattern=%s cap(key)=%d cap(value)=%d -> %v", hi, short(k), short(v), class, bufs.pattern, cap(bufs.key), cap(bufs.val), errS)
			if errS != nil {
				w.viol("savekeyvalue-error", fmt.Sprintf("SaveKeyValue(len %d, len %d): %v", len(k), len(v), errS), nil)
				return
			}
			usedPatterns[bufs.pattern] = true
			classes[class] = true
			// (2) the caller's memory is untouched
			r.Eval(1)
			overwritten := !bytes.Equal(bufs.key, keyBefore) || !bytes.Equal(bufs.val, valBefore)
			for j, arr := range bufs.arrays {
				if !bytes.Equal(arr, before[j]) {
					overwritten = true
				}
			}
			if overwritten {
				first := -1
				var arrNow, arrBefore []byte
				for j, arr := range bufs.arrays {
					for x := range arr {
						if arr[x] != before[j][x] {
							first, arrNow, arrBefore = x, arr, before[j]
							break
						}
					}
					if first >= 0 {
						break
					}
				}
				w.viol("caller-buffer-overwritten", fmt.Sprintf("SaveKeyValue(key len %d cap %d, value len %d cap %d, pattern %s) changed the caller's backing array at offset %d", len(k), cap(bufs.key), len(v), cap(bufs.val), bufs.pattern, first),
					map[string]interface{}{"pattern": bufs.pattern, "array_before": short(arrBefore), "array_after": short(arrNow), "first_changed_offset": first})
				// the stored value may still be right: keep going (own key) — the reference for
				// "bytes passed at write time" stays k / v
			}
			sl := &slot{val: cp(v), origin: bufs.val, pat: bufs.pattern, callOverwroteCaller: overwritten}
			if old := ac.slots[string(k)]; old != nil {
				sl.prev = old.val
			}
			h.dirty[string(k)] = sl
			if bufs.pattern == "arena-reused" {
				// earlier slots written through the arena keep pointing into it: that is the point
				r.Count("arena_rewrites", 1)
			}
			pending = append(pending, bufs)
			if rng.Bool() {
				// read before the caller touches its buffers
				if !w.readAll("dirty", h.h, view(h), rng) {
					return
				}
			}
			if rng.Bool() {
				scribble(bufs)
				r.Count("scribbles_before_save", 1)
				w.logf("  caller scribbles over its buffers")
			}
		}
		points["dirty"] = true
		for _, h := range hs {
			// no handle of the group has been saved yet: each one sees the saved state + its own writes
			if !w.readAll("dirty", h.h, view(h), rng) {
				return
			}
		}
		if held {
			r.Count("rounds_with_handles_held_across_commit", 1)
			points["held-across-commit"] = true
			w.logf("  (handles held across the following commit)")
			if !commitBoth(pending, ac) {
				return
			}
			for _, h := range hs {
				if !w.readAll("dirty", h.h, view(h), rng) {
					return
				}
			}
		}
		for _, hi := range rng.Perm(nH) {
			h := hs[hi]
			errA := a.ADB.SaveAccount(h.h)
			// the clean twin receives the same logical writes through one fresh handle per save
			hB, errB := userAcc(b.ADB.LoadAccount(cp(ac.addr)))
			if errB == nil {
				for _, wr := range h.writes {
					if errB = hB.DataTrieTracker().SaveKeyValue(cp(wr.k), cp(wr.v)); errB != nil {
						break
					}
				}
			}
			if errB == nil {
				errB = b.ADB.SaveAccount(hB)
			}
			w.logf("  handle %d: SaveAccount -> %v", hi, errA)
			if errA != nil || errB != nil {
				w.viol("saveaccount-error"+w.mode, fmt.Sprintf("SaveAccount: %v / twin %v", errA, errB), nil)
				return
			}
			own := &acct{addr: ac.addr, slots: map[string]*slot{}}
			for k, sl := range h.dirty {
				ac.slots[k] = sl // last saved wins
				own.slots[k] = sl
			}
			ac.saved = true
			points["saved-same-handle"] = true
			if nH == 1 {
				own = ac
			}
			// through the handle just saved: in multi-handle mode only the keys it wrote itself
			if !w.readAll("saved-same-handle", h.h, own, rng) {
				return
			}
		}
		if rng.Bool() {
			for _, bufs := range pending {
				scribble(bufs)
			}
			r.Count("scribbles_after_save", 1)
			w.logf("  caller scribbles over all buffers of the round (after SaveAccount)")
		}
		rA, errA := userAcc(a.ADB.GetExistingAccount(cp(ac.addr)))
		rB, errB := userAcc(b.ADB.GetExistingAccount(cp(ac.addr)))
		if errA != nil || errB != nil {
			w.viol("load-error"+w.mode, fmt.Sprintf("GetExistingAccount after SaveAccount: %v / twin %v", errA, errB), nil)
			return
		}
		points["saved-reloaded"] = true
		if !w.readAll("saved-reloaded", rA, ac, rng) {
			return
		}
		// (3) what is stored does not depend on the caller's buffers (nor on how many handles were used)
		r.Eval(1)
		if !bytes.Equal(rA.GetRootHash(), rB.GetRootHash()) {
			w.viol("data-root-differs-from-clean-twin"+w.mode, fmt.Sprintf("after SaveAccount the account's data-trie root is %x, the twin that received fresh copies of the same keys/values has %x (all values read back equal)", rA.GetRootHash(), rB.GetRootHash()), nil)
			return
		}
		if rng.Chance(3, 5) {
			if !commitBoth(pending, nil) {
				return
			}
			if rng.Chance(1, 3) {
				if errR := a.ADB.RecreateTrie(lastRoot); errR != nil {
					w.viol("recreate-error", errR.Error(), nil)
					return
				}
				w.logf("  RecreateTrie(%x)", lastRoot[:4])
				ua, errL := userAcc(a.ADB.GetExistingAccount(cp(ac.addr)))
				if errL != nil {
					w.viol("load-error"+w.mode, "after RecreateTrie: "+errL.Error(), nil)
					return
				}
				points["recreated"] = true
				if !w.readAll("recreated", ua, ac, rng) {
					return
				}
			}
			if rng.Chance(1, 3) {
				e2, errO := a.Reopen()
				if errO != nil {
					r.Inconclusive("reopen: " + errO.Error())
					return
				}
				errO = e2.ADB.RecreateTrie(lastRoot)
				if errO != nil {
					e2.Close()
					w.viol("reopen-error", errO.Error(), nil)
					return
				}
				w.logf("  second AccountsDB over the same DB, RecreateTrie(%x)", lastRoot[:4])
				ua, errL := userAcc(e2.ADB.GetExistingAccount(cp(ac.addr)))
				if errL != nil {
					e2.Close()
					w.viol("load-error"+w.mode, "after reopen: "+errL.Error(), nil)
					return
				}
				points["reopened"] = true
				ok := w.readAll("reopened", ua, ac, rng)
				e2.Close()
				if !ok {
					return
				}
			}
		}
	}
	hostile := 0
	for p := range usedPatterns {
		if p != "exact" && p != "cap-limited-subslices" {
			hostile++
		}
	}
	if hostile > 0 && len(points) >= 3 {
		r.ShapeHash(setStr(usedPatterns), setStr(points), setStr(classes))
		if r.NeedSample() {
			tr := w.log
			if len(tr) > 25 {
				tr = tr[:25]
			}
			r.Sample(map[string]interface{}{"case": c.Idx, "accounts": nAcc, "first_steps": tr})
		}
	} else {
		r.Trivial()
	}
}

func setStr(m map[string]bool) string {
	var s []string
	for k := range m {
		s = append(s, k)
	}
	sort.Strings(s)
	return fmt.Sprint(s)
}

// bigCase exercises the leaf size limit: a value one byte above core.MaxLeafSize must be refused
// without touching what is stored; at the limit and one below it (thorough only) the value is stored
// and read back at every read point.
func bigCase(r *vk.Run, c *vk.Case) {
	rng := c.Rng
	a, err := acctmodel.NewEnv(acctmodel.Options{})
	if err != nil {
		r.Inconclusive("environment: " + err.Error())
		return
	}
	defer a.Close()
	w := &worlds{r: r, c: c, a: a}
	ac := &acct{addr: rng.Bytes(32), slots: map[string]*slot{}}
	h, errL := userAcc(a.ADB.LoadAccount(cp(ac.addr)))
	if errL != nil {
		w.viol("load-error", errL.Error(), nil)
		return
	}
	key := []byte("big-key")
	small := rng.Bytes(40)
	_ = h.DataTrieTracker().SaveKeyValue(cp(key), cp(small))
	ac.slots[string(key)] = &slot{val: cp(small), pat: "exact"}
	sizes := []uint64{core.MaxLeafSize + 1}
	if !r.Quick() {
		sizes = [][]uint64{{core.MaxLeafSize + 1}, {core.MaxLeafSize - 1, core.MaxLeafSize + 1}, {core.MaxLeafSize, core.MaxLeafSize + 1}}[c.Idx%3]
	}
	for _, sz := range sizes {
		buf := make([]byte, sz+64)
		for i := 0; i < len(buf); i += 4096 {
			buf[i] = byte(rng.Intn(256))
		}
		buf[sz-1] = 0x77
		copy(buf[sz:], bytes.Repeat([]byte{0xC5}, 64))
		errS := h.DataTrieTracker().SaveKeyValue(cp(key), buf[:sz])
		w.logf("SaveKeyValue value length %d (MaxLeafSize %d) -> %v", sz, core.MaxLeafSize, errS)
		r.Eval(1)
		r.Count("size_limit_writes", 1)
		if sz > core.MaxLeafSize {
			if !errors.Is(errS, data.ErrLeafSizeTooBig) {
				w.viol("oversized-value-not-refused", fmt.Sprintf("value of %d bytes: error %v", sz, errS), nil)
				return
			}
		} else {
			if errS != nil {
				w.viol("savekeyvalue-error", fmt.Sprintf("value of %d bytes (<= MaxLeafSize) refused: %v", sz, errS), nil)
				return
			}
			ac.slots[string(key)] = &slot{val: cp(buf[:sz]), origin: buf[:sz], pat: "spare-separate"}
			if !bytes.Equal(buf[sz:], bytes.Repeat([]byte{0xC5}, 64)) {
				w.viol("caller-buffer-overwritten", fmt.Sprintf("SaveKeyValue(value len %d cap %d) changed the caller's backing array beyond len", sz, cap(buf)), nil)
			}
			buf[0] ^= 0xFF // caller reuses the buffer
		}
		if !w.readAll("dirty", h, ac, rng) {
			return
		}
	}
	if errS := a.ADB.SaveAccount(h); errS != nil {
		w.viol("saveaccount-error", errS.Error(), nil)
		return
	}
	if !w.readAll("saved-same-handle", h, ac, rng) {
		return
	}
	root, errC := a.ADB.Commit()
	if errC != nil {
		w.viol("commit-error", errC.Error(), nil)
		return
	}
	if errR := a.ADB.RecreateTrie(root); errR != nil {
		w.viol("recreate-error", errR.Error(), nil)
		return
	}
	ua, errL := userAcc(a.ADB.GetExistingAccount(cp(ac.addr)))
	if errL != nil {
		w.viol("load-error", errL.Error(), nil)
		return
	}
	if !w.readAll("recreated", ua, ac, rng) {
		return
	}
	r.Shape(fmt.Sprintf("size-limit %v", sizes))
}
