// Two further case kinds of C08 (case indexes after the base cases; the base cases keep their generator).
//
// faultCase — "after commit / after reloading" under a storage write fault. Several accounts get
// dirty storage in ONE commit, and one Put of that Commit is made to fail through the decorator of
// the database the harness hands to the trie storage manager. Either Commit reports the error —
// then the caller's protocol is followed (RevertToSnapshot(0)) and every key must read its last
// committed value — or Commit reports success — then every value saved before it must be read back
// through the same AccountsDB, after RecreateTrie and through a second AccountsDB over the same
// database (a Commit that returns a root hash vouches for everything saved under it).
//
// readerCase — several live handles of one account, some of them pure readers: a handle that has
// read a key (or found it empty) is kept while the key is overwritten / deleted / created through
// another handle of the same account and saved; read again through the kept handle it must give
// the bytes last written and saved (all handles loaded since the last commit of an account that
// has a data trie share that trie). A kept handle may itself write and save later.
package main

import (
	"fmt"
	"sort"

	"github.com/ElrondNetwork/elrond-go/data"
	"github.com/ElrondNetwork/elrond-go/data/state"

	"verif/internal/acctmodel"
	"verif/internal/vk"
)

func copySlots(m map[string]*slot) map[string]*slot {
	o := make(map[string]*slot, len(m))
	for k, v := range m {
		o[k] = v
	}
	return o
}

func liveKeys(ac *acct) []string {
	var ks []string
	for k, sl := range ac.slots {
		if len(sl.val) > 0 {
			ks = append(ks, k)
		}
	}
	sort.Strings(ks)
	return ks
}

// pickWrite draws one storage write for the account: overwrite / delete of a live key or a new key.
// The last live key is never deleted (the account keeps a non-empty data trie).
func pickWrite(rng *vk.Rand, ac *acct, pending map[string]*slot, pool *[][]byte) (k, v []byte, class string) {
	live := liveKeys(ac)
	nLiveAfter := 0
	for _, lk := range live {
		if p, ok := pending[lk]; !ok || len(p.val) > 0 {
			nLiveAfter++
		}
	}
	switch x := rng.Intn(8); {
	case x < 3 && len(live) > 0:
		k, class = []byte(live[rng.Intn(len(live))]), "overwrite"
	case x < 5 && nLiveAfter > 1:
		k = []byte(live[rng.Intn(len(live))])
		if p, ok := pending[string(k)]; ok && len(p.val) == 0 {
			return cp(k), rng.Bytes(rng.Range(1, 60)), "overwrite"
		}
		return cp(k), []byte{}, "delete"
	case x < 6 && len(*pool) > 0:
		k, class = (*pool)[rng.Intn(len(*pool))], "pool-key"
	default:
		k, class = genKey(rng, ac.addr, *pool), "new-key"
		if len(k) == 0 {
			k = rng.Bytes(3)
		}
		*pool = append(*pool, cp(k))
	}
	v = rng.Bytes(rng.Range(1, 120))
	if rng.Chance(1, 6) {
		v = append(append(rng.Bytes(rng.Range(0, 8)), k...), ac.addr...)
	}
	return cp(k), v, class
}

// ---------------------------------------------------------------------------------------

func faultCase(r *vk.Run, c *vk.Case) {
	rng := c.Rng
	opt := acctmodel.Options{MaxTrieLevelInMemory: uint([]int{1, 2, 5}[rng.Intn(3)])}
	if rng.Chance(1, 5) {
		opt.Pruning = true
	}
	var fdb *acctmodel.FaultDB
	opt.WrapDB = func(db data.DBWriteCacher) data.DBWriteCacher {
		if fdb != nil {
			return db // a second AccountsDB over the same database (Reopen) only reads
		}
		fdb = acctmodel.NewFaultDB(db)
		return fdb
	}
	a, err := acctmodel.NewEnv(opt)
	if err != nil {
		r.Inconclusive("environment: " + err.Error())
		return
	}
	defer a.Close()
	w := &worlds{r: r, c: c, a: a, mode: " mode=put-fault"}
	r.Count("put_fault_cases", 1)

	nAcc := rng.Range(2, 5)
	accts := make([]*acct, nAcc)
	committed := make([]map[string]*slot, nAcc)
	committedSaved := make([]bool, nAcc)
	for i := range accts {
		accts[i] = &acct{addr: rng.Bytes(32), slots: map[string]*slot{}}
		committed[i] = map[string]*slot{}
	}
	var pool [][]byte
	var lastRoot []byte
	points := map[string]bool{}
	outcomes := map[string]bool{}

	readEvery := func(point string, adb *state.AccountsDB) bool {
		for _, x := range accts {
			if !x.saved {
				continue
			}
			ua, errL := userAcc(adb.GetExistingAccount(cp(x.addr)))
			if errL != nil {
				w.viol("load-error at="+point+w.mode, fmt.Sprintf("%s: GetExistingAccount(%x..): %v", point, x.addr[:4], errL), map[string]interface{}{"point": point})
				return false
			}
			if !w.readAll(point, ua, x, rng) {
				return false
			}
		}
		points[point] = true
		return true
	}

	rounds := rng.Range(3, 7)
	for rd := 0; rd < rounds; rd++ {
		// write phase: 2..nAcc accounts get storage writes and are saved (all dirty in the next commit)
		nW := rng.Range(2, nAcc)
		for _, ai := range rng.Perm(nAcc)[:nW] {
			ac := accts[ai]
			h, errL := userAcc(a.ADB.LoadAccount(cp(ac.addr)))
			if errL != nil {
				w.viol("load-error"+w.mode, "LoadAccount: "+errL.Error(), nil)
				return
			}
			pending := map[string]*slot{}
			for i, n := 0, rng.Range(1, 4); i < n; i++ {
				k, v, class := pickWrite(rng, ac, pending, &pool)
				errS := h.DataTrieTracker().SaveKeyValue(cp(k), cp(v))
				w.logf("round %d: account %x SaveKeyValue key=%s value=%s (%s) -> %v", rd, ac.addr[:4], short(k), short(v), class, errS)
				if errS != nil {
					w.viol("savekeyvalue-error", errS.Error(), nil)
					return
				}
				sl := &slot{val: cp(v), pat: "exact"}
				if old := ac.slots[string(k)]; old != nil {
					sl.prev = old.val
				}
				pending[string(k)] = sl
				r.Count("writes", 1)
			}
			if errS := a.ADB.SaveAccount(h); errS != nil {
				w.viol("saveaccount-error"+w.mode, errS.Error(), nil)
				return
			}
			for k, sl := range pending {
				ac.slots[k] = sl
			}
			ac.saved = true
			w.logf("round %d: account %x SaveAccount", rd, ac.addr[:4])
		}
		if rng.Bool() {
			if !readEvery("saved-reloaded", a.ADB) {
				return
			}
		}
		// commit phase
		armed := rng.Chance(1, 2)
		if armed {
			n := rng.Range(1, 6)
			if rng.Chance(1, 3) {
				n = 1
			}
			fdb.Arm(n)
			w.logf("round %d: Put number %d of the following Commit fails", rd, n)
			r.Count("commits_armed", 1)
		}
		root, errC := a.ADB.Commit()
		fired := fdb.Disarm()
		w.logf("round %d: Commit -> %x %v (fault fired: %v)", rd, root, errC, fired)
		if errC != nil {
			if !fired {
				w.viol("commit-error", errC.Error(), nil)
				return
			}
			r.Count("commits_reporting_the_put_fault", 1)
			outcomes["commit-error-reported"] = true
			// the caller's protocol after a failed Commit
			if errV := a.ADB.RevertToSnapshot(0); errV != nil {
				w.viol("revert-error-after-failed-commit", errV.Error(), nil)
				return
			}
			w.logf("round %d: RevertToSnapshot(0)", rd)
			for i, x := range accts {
				x.slots = map[string]*slot{}
				for k, sl := range committed[i] {
					x.slots[k] = sl
				}
				// keys written only since the last commit must read empty again
				for _, pk := range pool {
					if _, ok := x.slots[string(pk)]; !ok {
						x.slots[string(pk)] = &slot{pat: "exact"}
					}
				}
				x.saved = committedSaved[i]
			}
			if !readEvery("reverted-after-failed-commit", a.ADB) {
				return
			}
			continue
		}
		r.Count("commits", 1)
		if fired {
			// nothing to say here: the read points below decide
			r.Count("commits_reporting_success_although_a_put_failed", 1)
			outcomes["commit-ok-with-fired-fault"] = true
		} else if armed {
			r.Count("commits_armed_fault_not_reached", 1)
			outcomes["commit-ok-fault-not-reached"] = true
		} else {
			outcomes["commit-ok"] = true
		}
		lastRoot = root
		for i, x := range accts {
			committed[i] = copySlots(x.slots)
			committedSaved[i] = x.saved
		}
		if !readEvery("committed", a.ADB) {
			return
		}
		if rng.Chance(1, 2) {
			if errR := a.ADB.RecreateTrie(lastRoot); errR != nil {
				w.viol("recreate-error"+w.mode, errR.Error(), nil)
				return
			}
			w.logf("round %d: RecreateTrie(%x)", rd, lastRoot[:4])
			if !readEvery("recreated", a.ADB) {
				return
			}
		}
		if rng.Chance(2, 3) || rd == rounds-1 {
			e2, errO := a.Reopen()
			if errO != nil {
				r.Inconclusive("reopen: " + errO.Error())
				return
			}
			if errO = e2.ADB.RecreateTrie(lastRoot); errO != nil {
				e2.Close()
				w.viol("reopen-error"+w.mode, errO.Error(), nil)
				return
			}
			w.logf("round %d: second AccountsDB over the same DB, RecreateTrie(%x)", rd, lastRoot[:4])
			ok := readEvery("reopened", e2.ADB)
			e2.Close()
			if !ok {
				return
			}
		}
	}
	if outcomes["commit-error-reported"] && len(points) >= 3 {
		r.ShapeHash("put-fault", setStr(points), setStr(outcomes), fmt.Sprint(nAcc))
	} else {
		r.Trivial()
	}
}

// ---------------------------------------------------------------------------------------

type liveHandle struct {
	name    string
	h       state.UserAccountHandler
	pending map[string]*slot
}

func readerCase(r *vk.Run, c *vk.Case) {
	rng := c.Rng
	opt := acctmodel.Options{MaxTrieLevelInMemory: uint([]int{1, 2, 5}[rng.Intn(3)])}
	if rng.Chance(1, 5) {
		opt.Pruning = true
	}
	a, err := acctmodel.NewEnv(opt)
	if err != nil {
		r.Inconclusive("environment: " + err.Error())
		return
	}
	defer a.Close()
	w := &worlds{r: r, c: c, a: a, mode: " mode=kept-reader"}
	r.Count("kept_reader_cases", 1)

	nAcc := rng.Range(1, 2)
	accts := make([]*acct, nAcc)
	handles := make([][]*liveHandle, nAcc)
	var pool [][]byte
	nHandles := 0
	events := map[string]bool{}
	// setup: every account gets a data trie (2-5 keys saved through one handle)
	for i := range accts {
		ac := &acct{addr: rng.Bytes(32), slots: map[string]*slot{}}
		accts[i] = ac
		h, errL := userAcc(a.ADB.LoadAccount(cp(ac.addr)))
		if errL != nil {
			w.viol("load-error"+w.mode, "LoadAccount: "+errL.Error(), nil)
			return
		}
		for j, n := 0, rng.Range(2, 5); j < n; j++ {
			k := genKey(rng, ac.addr, pool)
			if len(k) == 0 {
				k = rng.Bytes(2)
			}
			v := rng.Bytes(rng.Range(1, 80))
			pool = append(pool, cp(k))
			if errS := h.DataTrieTracker().SaveKeyValue(cp(k), cp(v)); errS != nil {
				w.viol("savekeyvalue-error", errS.Error(), nil)
				return
			}
			ac.slots[string(k)] = &slot{val: cp(v), pat: "exact"}
			w.logf("setup: account %x key=%s value=%s", ac.addr[:4], short(k), short(v))
		}
		if errS := a.ADB.SaveAccount(h); errS != nil {
			w.viol("saveaccount-error"+w.mode, errS.Error(), nil)
			return
		}
		ac.saved = true
	}
	if rng.Bool() {
		if _, errC := a.ADB.Commit(); errC != nil {
			w.viol("commit-error", errC.Error(), nil)
			return
		}
		w.logf("setup: Commit")
	}
	// what a handle must read: its own pending writes, else the saved state of the account
	view := func(ac *acct, lh *liveHandle) *acct {
		v := &acct{addr: ac.addr, slots: map[string]*slot{}}
		for _, pk := range pool {
			v.slots[string(pk)] = &slot{pat: "exact"} // never written on this account: reads empty
		}
		for k, sl := range ac.slots {
			v.slots[k] = sl
		}
		for k, sl := range lh.pending {
			v.slots[k] = sl
		}
		return v
	}
	readThroughAll := func(ai int, point string) bool {
		for _, lh := range handles[ai] {
			r.Count("reads_through_kept_handles", 1)
			if !w.readAll(point, lh.h, view(accts[ai], lh), rng) {
				return false
			}
		}
		return true
	}

	steps := rng.Range(6, 16)
	for s := 0; s < steps; s++ {
		ai := rng.Intn(nAcc)
		ac := accts[ai]
		switch x := rng.Intn(10); {
		case x < 3 && len(handles[ai]) < 4: // keep one more handle; it reads every key right away
			how := "LoadAccount"
			var h state.UserAccountHandler
			var errL error
			if rng.Bool() {
				how = "GetExistingAccount"
				h, errL = userAcc(a.ADB.GetExistingAccount(cp(ac.addr)))
			} else {
				h, errL = userAcc(a.ADB.LoadAccount(cp(ac.addr)))
			}
			if errL != nil {
				w.viol("load-error"+w.mode, how+": "+errL.Error(), nil)
				return
			}
			nHandles++
			lh := &liveHandle{name: fmt.Sprintf("H%d", nHandles), h: h, pending: map[string]*slot{}}
			handles[ai] = append(handles[ai], lh)
			w.logf("step %d: %s := %s(%x..) kept", s, lh.name, how, ac.addr[:4])
			r.Count("handles_kept", 1)
			if !w.readAll("kept-handle-first-read", lh.h, view(ac, lh), rng) {
				return
			}
		case x < 9: // write through a fresh handle or through one of the kept ones, save, read through all
			var lh *liveHandle
			if len(handles[ai]) > 0 && rng.Chance(1, 3) {
				lh = handles[ai][rng.Intn(len(handles[ai]))]
				events["kept-handle-writes"] = true
			} else {
				h, errL := userAcc(a.ADB.LoadAccount(cp(ac.addr)))
				if errL != nil {
					w.viol("load-error"+w.mode, "LoadAccount: "+errL.Error(), nil)
					return
				}
				lh = &liveHandle{name: "fresh", h: h, pending: map[string]*slot{}}
			}
			for i, n := 0, rng.Range(1, 3); i < n; i++ {
				k, v, class := pickWrite(rng, ac, lh.pending, &pool)
				errS := lh.h.DataTrieTracker().SaveKeyValue(cp(k), cp(v))
				w.logf("step %d: %s.SaveKeyValue key=%s value=%s (%s) -> %v", s, lh.name, short(k), short(v), class, errS)
				if errS != nil {
					w.viol("savekeyvalue-error", errS.Error(), nil)
					return
				}
				sl := &slot{val: cp(v), pat: "exact"}
				if old := ac.slots[string(k)]; old != nil {
					sl.prev = old.val
				}
				lh.pending[string(k)] = sl
				events[class] = true
				r.Count("writes", 1)
			}
			if len(handles[ai]) > 0 && rng.Bool() {
				// before the save the other handles read the saved state, the writer its pending writes
				if !w.readAll("dirty", lh.h, view(ac, lh), rng) {
					return
				}
			}
			if errS := a.ADB.SaveAccount(lh.h); errS != nil {
				w.viol("saveaccount-error"+w.mode, errS.Error(), nil)
				return
			}
			w.logf("step %d: SaveAccount(%s)", s, lh.name)
			for k, sl := range lh.pending {
				ac.slots[k] = sl
			}
			lh.pending = map[string]*slot{}
			if len(handles[ai]) > 0 {
				events["read-through-kept-handle-after-another-save"] = true
			}
			if !readThroughAll(ai, "saved-other-handle") {
				return
			}
			if lh.name == "fresh" {
				if !w.readAll("saved-same-handle", lh.h, view(ac, lh), rng) {
					return
				}
			}
		default: // commit: the data tries are reloaded afterwards, kept handles are given up
			if _, errC := a.ADB.Commit(); errC != nil {
				w.viol("commit-error", errC.Error(), nil)
				return
			}
			w.logf("step %d: Commit (kept handles dropped)", s)
			r.Count("commits", 1)
			for i := range handles {
				handles[i] = nil
			}
			events["commit"] = true
			for i := range accts {
				ua, errL := userAcc(a.ADB.GetExistingAccount(cp(accts[i].addr)))
				if errL != nil {
					w.viol("load-error"+w.mode, "after Commit: "+errL.Error(), nil)
					return
				}
				if !w.readAll("committed", ua, accts[i], rng) {
					return
				}
			}
		}
	}
	if events["read-through-kept-handle-after-another-save"] {
		r.ShapeHash("kept-reader", setStr(events), fmt.Sprint(nAcc, nHandles))
	} else {
		r.Trivial()
	}
}
