// Fork phase of a sequential C03 case: the recreated trie and the trie it was recreated from are BOTH kept in use.
// "Further updates on the recreated trie behave exactly as they would on the original" must hold while the original
// (and every other trie object over the same storage) goes its own way: after the last commit of the case history the
// working trie is forked with Recreate (at the root it holds itself right after Commit, at an older remembered root,
// directly or through another trie object with another level); every trie object is an independent "line" with its
// own model map. A step mutates, commits or forks ONE line (no reads in between, so that deletes meet branches whose
// siblings are still collapsed); after every step the root of EVERY line - also of the lines that were not operated
// on ("bystanders") - must be the root of a fresh trie rebuilt from that line's own pairs, and periodically every
// line's point reads must equal its own model. At the end every line is committed, then every line's root and every
// remembered root is recreated through a new trie object and compared (root hash, all leaves, point reads).
package main

import (
	"bytes"
	"fmt"

	"github.com/ElrondNetwork/elrond-go/data"

	"verif/internal/triegen"
	"verif/internal/vk"
)

type forkRec struct {
	Line  string `json:"line"`
	Op    string `json:"op"`
	Key   string `json:"key,omitempty"`
	Value string `json:"value,omitempty"`
}

type forkLine struct {
	name  string
	tr    data.Trie
	model map[string][]byte
	want  []byte // root of a fresh trie rebuilt from model
	dirty bool
	ops   int
}

// runForkPhase: tr is the working trie of the case (any state), model its map, roots the remembered commits.
// fail reports a violation with the case history attached.
func runForkPhase(r *vk.Run, c *vk.Case, env *triegen.Env, level uint, tr data.Trie, model map[string][]byte, roots []remembered, pool [][]byte,
	fail func(key, what string, extra map[string]interface{})) bool {
	rng := r.Rng(c.Idx, 9) // own stream: the history part of the case is unchanged
	ref, err := triegen.NewRefBuilder()
	if err != nil {
		r.Inconclusive("NewRefBuilder: " + err.Error())
		return false
	}
	defer ref.Close()

	var steps []forkRec
	ffail := func(key, what string, extra map[string]interface{}) {
		d := map[string]interface{}{"fork_steps": steps}
		for k, v := range extra {
			d[k] = v
		}
		fail(key, what, d)
	}
	rebuild := func(m map[string][]byte) []byte {
		h, rerr := ref.Root(m)
		if rerr != nil {
			panic("harness: reference trie: " + rerr.Error())
		}
		return h
	}
	known := append([]remembered{}, roots...)

	commit := func(l *forkLine) bool {
		steps = append(steps, forkRec{Line: l.name, Op: "commit"})
		if cerr := l.tr.Commit(); cerr != nil {
			ffail("op-error:Commit", fmt.Sprintf("fork line %s: Commit: %v", l.name, cerr), nil)
			return false
		}
		r.Count("commits", 1)
		l.dirty = false
		h, herr := l.tr.RootHash()
		if herr != nil {
			ffail("op-error:RootHash", fmt.Sprintf("fork line %s: %v", l.name, herr), nil)
			return false
		}
		r.Eval(1)
		if !bytes.Equal(h, l.want) {
			ffail("fork-root-changes-on-commit", fmt.Sprintf("line %s: a fresh trie rebuilt from its %d pairs has root %x (so had the line before Commit), after Commit the line reports %x", l.name, len(l.model), l.want, h),
				map[string]interface{}{"line": l.name})
			return false
		}
		if len(known) < 24 {
			known = append(known, remembered{root: cp(h), model: cpMap(l.model), at: -1})
		}
		return true
	}

	orig := &forkLine{name: "orig", tr: tr, model: cpMap(model), dirty: true}
	orig.want = rebuild(orig.model)
	lines := []*forkLine{orig}

	checkRoot := func(l *forkLine, bystander bool) bool {
		r.Eval(1)
		r.Count("fork_root_checks", 1)
		key := "fork-root-differs-from-rebuild"
		if bystander {
			key = "fork-bystander-root-differs-from-rebuild"
			r.Count("fork_bystander_root_checks", 1)
		}
		h, herr := l.tr.RootHash()
		if herr != nil {
			ffail("op-error:RootHash", fmt.Sprintf("fork line %s: %v", l.name, herr), nil)
			return false
		}
		if !bytes.Equal(h, l.want) {
			what := fmt.Sprintf("line %s: its own history ends in %d pairs, a fresh trie rebuilt from them has root %x, the line reports %x", l.name, len(l.model), l.want, h)
			if bystander {
				what += "; the line was NOT operated on in the last step (another trie object over the same storage was)"
			}
			ffail(key, what, map[string]interface{}{"line": l.name})
			return false
		}
		return true
	}
	checkReads := func(l *forkLine, bystander bool) bool {
		r.Eval(1)
		r.Count("fork_read_checks", 1)
		key := "fork-get-differs"
		if bystander {
			key = "fork-bystander-get-differs"
		}
		for _, k := range pool {
			got, gerr := l.tr.Get(cp(k))
			if gerr != nil {
				ffail("op-error:Get", fmt.Sprintf("fork line %s: Get(%x): %v", l.name, k, gerr), nil)
				return false
			}
			if !bytes.Equal(got, l.model[string(k)]) {
				ffail(key, fmt.Sprintf("line %s: Get(%x) = %x, last written through this line: %x", l.name, k, got, l.model[string(k)]), map[string]interface{}{"line": l.name})
				return false
			}
		}
		r.Count("point_reads", len(pool))
		return true
	}
	checkAll := func(operated *forkLine, reads bool) bool {
		for _, l := range lines {
			if !checkRoot(l, operated != nil && l != operated) {
				return false
			}
		}
		if reads {
			for _, l := range lines {
				if !checkReads(l, operated != nil && l != operated) {
					return false
				}
			}
		}
		return true
	}
	// recreate a committed root through a NEW trie object and compare everything with the map
	checkRecreated := func(root []byte, m map[string][]byte, ctx string) bool {
		r.Eval(1)
		r.Count("fork_recreate_checks", 1)
		lv := level
		if rng.Bool() {
			lv = triegen.Levels[rng.Intn(len(triegen.Levels))]
		}
		base, nerr := env.NewTrie(lv)
		if nerr != nil {
			r.Inconclusive("NewTrie: " + nerr.Error())
			return false
		}
		rt, rerr := base.Recreate(cp(root))
		r.Count("recreates", 1)
		if rerr != nil || rt == nil || rt.IsInterfaceNil() {
			ffail("fork-recreate-failed", fmt.Sprintf("%s: Recreate(%x): %v", ctx, root, rerr), nil)
			return false
		}
		h, herr := rt.RootHash()
		if herr != nil {
			ffail("op-error:RootHash", fmt.Sprintf("%s: %v", ctx, herr), nil)
			return false
		}
		if !bytes.Equal(h, root) {
			ffail("fork-recreated-root-differs", fmt.Sprintf("%s: recreated from %x, RootHash() is %x", ctx, root, h), nil)
			return false
		}
		leaves, lerr := triegen.Leaves(rt, root)
		if lerr != nil {
			ffail("op-error:GetAllLeavesOnChannel", fmt.Sprintf("%s: %v", ctx, lerr), nil)
			return false
		}
		r.Count("leaves_delivered", len(leaves))
		if class, text := triegen.DiffLeaves(leaves, m); class != "" {
			ffail("fork-recreated-"+class, fmt.Sprintf("%s: %s", ctx, text), nil)
			return false
		}
		for _, k := range pool {
			got, gerr := rt.Get(cp(k))
			if gerr != nil {
				ffail("op-error:Get", fmt.Sprintf("%s: Get(%x): %v", ctx, k, gerr), nil)
				return false
			}
			if !bytes.Equal(got, m[string(k)]) {
				ffail("fork-recreated-get-differs", fmt.Sprintf("%s: Get(%x) = %x, committed value %x", ctx, k, got, m[string(k)]), nil)
				return false
			}
		}
		r.Count("point_reads", len(pool))
		return true
	}

	if !checkRoot(orig, false) || !commit(orig) {
		return false
	}
	nSteps := rng.Range(6, 14)
	for s := 0; s < nSteps; s++ {
		var operated *forkLine
		act := rng.Intn(100)
		switch {
		case s == 0 || (len(lines) < 4 && act < 22):
			// ---- fork
			p := lines[rng.Intn(len(lines))]
			if p.dirty && !commit(p) {
				return false
			}
			if rng.Bool() { // load some of the nodes that Commit collapsed
				for i := 0; i < 3; i++ {
					k := pool[rng.Intn(len(pool))]
					steps = append(steps, forkRec{Line: p.name, Op: "get", Key: vk.Hex(k)})
					if _, gerr := p.tr.Get(cp(k)); gerr != nil {
						ffail("op-error:Get", fmt.Sprintf("fork line %s: Get(%x): %v", p.name, k, gerr), nil)
						return false
					}
				}
			}
			nl := &forkLine{name: fmt.Sprintf("fork%d", len(lines))}
			mode := rng.Intn(100)
			if s == 0 {
				mode = 0
			}
			var rerr error
			switch {
			case mode < 60:
				steps = append(steps, forkRec{Line: nl.name, Op: "recreate-own-root-of:" + p.name, Key: vk.Hex(p.want)})
				nl.tr, rerr = p.tr.Recreate(cp(p.want))
				nl.model, nl.want = cpMap(p.model), cp(p.want)
				r.Count("fork_recreate_own_root", 1)
			case mode < 75:
				lv := triegen.Levels[rng.Intn(len(triegen.Levels))]
				steps = append(steps, forkRec{Line: nl.name, Op: fmt.Sprintf("recreate-through-new-trie-level-%d-root-of:%s", lv, p.name), Key: vk.Hex(p.want)})
				t2, nerr := env.NewTrie(lv)
				if nerr != nil {
					r.Inconclusive("NewTrie: " + nerr.Error())
					return false
				}
				nl.tr, rerr = t2.Recreate(cp(p.want))
				nl.model, nl.want = cpMap(p.model), cp(p.want)
				r.Count("fork_recreate_other_trie", 1)
			default:
				old := known[rng.Intn(len(known))]
				steps = append(steps, forkRec{Line: nl.name, Op: "recreate-older-root-through:" + p.name, Key: vk.Hex(old.root)})
				nl.tr, rerr = p.tr.Recreate(cp(old.root))
				nl.model, nl.want = cpMap(old.model), cp(old.root)
				r.Count("fork_recreate_older_root", 1)
			}
			r.Count("recreates", 1)
			if rerr != nil || nl.tr == nil || nl.tr.IsInterfaceNil() {
				ffail("fork-recreate-failed", fmt.Sprintf("fork of line %s: %v", p.name, rerr), nil)
				return false
			}
			lines = append(lines, nl)
			operated = nl
		case act < 34:
			l := lines[rng.Intn(len(lines))]
			if !commit(l) {
				return false
			}
			operated = l
		default:
			// ---- mutate one line (prefer the less used one, so that every line is really used)
			l := lines[rng.Intn(len(lines))]
			if o := lines[rng.Intn(len(lines))]; o.ops < l.ops {
				l = o
			}
			n := rng.Range(1, 4)
			for i := 0; i < n; i++ {
				k := pool[rng.Intn(len(pool))]
				kind := rng.Intn(100)
				if live := sortedKeys(l.model); kind < 65 && len(live) > 0 {
					k = []byte(live[rng.Intn(len(live))])
				}
				var o op
				if kind < 45 {
					o = op{del: true, key: cp(k)}
					steps = append(steps, forkRec{Line: l.name, Op: "delete", Key: vk.Hex(k)})
					r.Count("fork_deletes", 1)
				} else {
					o = op{key: cp(k), val: triegen.Value(rng)}
					steps = append(steps, forkRec{Line: l.name, Op: "update", Key: vk.Hex(k), Value: vk.Hex(o.val)})
					r.Count("fork_updates", 1)
				}
				if aerr := apply(l.tr, o); aerr != nil {
					ffail("fork-op-error", fmt.Sprintf("line %s: %v", l.name, aerr), map[string]interface{}{"line": l.name})
					return false
				}
				applyModel(l.model, o)
				l.ops++
			}
			l.dirty = true
			l.want = rebuild(l.model)
			operated = l
		}
		if !checkAll(operated, rng.Chance(1, 4)) {
			return false
		}
	}
	// ---- end: commit every line, then recreate every line's root and every remembered root
	for _, l := range lines {
		if l.dirty && !commit(l) {
			return false
		}
	}
	if !checkAll(nil, true) {
		return false
	}
	for _, l := range lines {
		if !checkRecreated(l.want, l.model, fmt.Sprintf("root %x committed by fork line %s", l.want, l.name)) {
			return false
		}
	}
	// the remembered roots were all checked before the fork phase; its commits only add nodes, so a sample must still
	// be recoverable unchanged
	for i := 0; i < 3 && len(known) > 0; i++ {
		rm := known[rng.Intn(len(known))]
		if !checkRecreated(rm.root, rm.model, fmt.Sprintf("remembered root %x (commit #%d) after the fork phase", rm.root, rm.at)) {
			return false
		}
	}
	used := 0
	for _, l := range lines {
		if l.ops > 0 {
			used++
		}
	}
	r.Count("fork_cases", 1)
	r.Count("fork_lines", len(lines))
	if used >= 2 {
		r.Count("fork_cases_with_two_or_more_mutated_lines", 1)
	}
	r.Max("fork_max_lines", int64(len(lines)))
	return true
}
