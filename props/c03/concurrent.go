// Concurrent phase of C03: Commit() racing with Update/Delete from other goroutines.
// The trie serialises every operation with mutOperation (and the repository tests concurrent Update/Get), so a
// Commit that overlaps writers must still leave every root that RootHash() reports after a later, quiescent
// Commit() recoverable: Recreate(root) on a fresh trie object has the same root hash, every key of the union
// model is readable with its value and the full leaf set equals the model.
// Not replay-deterministic (goroutine interleaving); the replay artefact is the recorded per-writer history.
package main

import (
	"bytes"
	"fmt"
	"runtime"
	"sort"
	"strings"
	"sync"
	"sync/atomic"
	"time"

	"github.com/ElrondNetwork/elrond-go/data"

	"verif/internal/triegen"
	"verif/internal/vk"
)

const concCaseBase = 1000000 // case indices of the concurrent phase start here (keeps replay files unambiguous)

// yieldingDB widens the window of a Commit: every Put yields, some Puts sleep a few microseconds
type yieldingDB struct {
	data.DBWriteCacher
	puts uint64
}

func (y *yieldingDB) Put(k, v []byte) error {
	n := atomic.AddUint64(&y.puts, 1)
	runtime.Gosched()
	if (n*0x9e3779b97f4a7c15)>>61 == 0 { // about 1 in 8
		time.Sleep(20 * time.Microsecond)
	}
	return y.DBWriteCacher.Put(k, v)
}

func (y *yieldingDB) IsInterfaceNil() bool { return y == nil }

type writer struct {
	id    int
	rng   *vk.Rand
	keys  [][]byte
	model map[string][]byte
	hist  []opRec
}

func runConcurrentPhase(r *vk.Run) {
	nCases := r.N(60, 1200)
	workers := runtime.GOMAXPROCS(0) / 4
	if workers < 2 {
		workers = 2
	}
	r.ParallelW(nCases, workers, func(c *vk.Case) {
		idx := c.Idx
		if r.ReplayCase >= 0 {
			if idx < concCaseBase {
				return // replay of a sequential case
			}
			idx -= concCaseBase
		}
		caseID := concCaseBase + idx
		rng := r.Rng(caseID)
		level := triegen.Levels[rng.Intn(len(triegen.Levels))]
		var ydb *yieldingDB
		env, err := triegen.NewEnvWrapped(level, func(db data.DBWriteCacher) data.DBWriteCacher {
			ydb = &yieldingDB{DBWriteCacher: db}
			return ydb
		})
		if err != nil {
			r.Inconclusive("cannot build trie: " + err.Error())
			return
		}
		defer env.Close()
		tr := env.Trie

		nW := rng.Range(2, 4)
		pool := triegen.Pool(rng, rng.Range(24, 90))
		ws := make([]*writer, nW)
		for i := range ws {
			ws[i] = &writer{id: i, rng: rng.Fork(), model: map[string][]byte{}}
		}
		for i, k := range pool { // disjoint key partitions
			w := ws[i%nW]
			w.keys = append(w.keys, k)
		}
		// committed base: about a third of every partition
		for _, w := range ws {
			for _, k := range w.keys {
				if rng.Chance(1, 3) {
					v := triegen.Value(rng)
					if uerr := tr.Update(cp(k), cp(v)); uerr != nil {
						r.Inconclusive("base Update: " + uerr.Error())
						return
					}
					w.model[string(k)] = v
					w.hist = append(w.hist, opRec{"base-update", vk.Hex(k), vk.Hex(v)})
				}
			}
		}
		if cerr := tr.Commit(); cerr != nil {
			r.Inconclusive("base Commit: " + cerr.Error())
			return
		}

		// failures raised inside goroutines are only recorded; they are reported (with the per-writer histories)
		// by the case goroutine after all goroutines of the round have been joined
		type pendingFail struct {
			key, what string
			extra     map[string]interface{}
		}
		var failMu sync.Mutex
		var pending []pendingFail
		var failedFlag int32
		curRound := 0
		fail := func(key, what string, extra map[string]interface{}) {
			failMu.Lock()
			pending = append(pending, pendingFail{key, what, extra})
			failMu.Unlock()
			atomic.StoreInt32(&failedFlag, 1)
		}
		flush := func() bool {
			failMu.Lock()
			defer failMu.Unlock()
			for _, pf := range pending {
				d := map[string]interface{}{"level": level, "writers": nW, "round": curRound, "note": "concurrent phase: not replay-deterministic; per-writer histories below"}
				for _, w := range ws {
					h := w.hist
					if len(h) > 400 {
						h = h[len(h)-400:]
					}
					d[fmt.Sprintf("writer%d_history_tail", w.id)] = h
				}
				for k, v := range pf.extra {
					d[k] = v
				}
				r.Violation(caseID, pf.key, pf.what, d)
			}
			bad := len(pending) > 0
			pending = nil
			return bad
		}
		defer flush()

		nRounds := rng.Range(3, 5)
		for round := 0; round < nRounds; round++ {
			curRound = round
			var wg sync.WaitGroup
			var writersDone int32
			opsPer := rng.Range(8, 30)
			for _, w := range ws {
				wg.Add(1)
				go func(w *writer) {
					defer wg.Done()
					p, pv, st := vk.Guard(func() {
						for i := 0; i < opsPer && atomic.LoadInt32(&failedFlag) == 0; i++ {
							k := w.keys[w.rng.Intn(len(w.keys))]
							if _, live := w.model[string(k)]; live && w.rng.Chance(1, 4) {
								w.hist = append(w.hist, opRec{"delete", vk.Hex(k), ""})
								if derr := tr.Delete(cp(k)); derr != nil {
									fail("op-error:Delete mode=concurrent-commit", fmt.Sprintf("writer %d Delete(%x): %v", w.id, k, derr), nil)
									return
								}
								delete(w.model, string(k))
							} else {
								v := triegen.Value(w.rng)
								w.hist = append(w.hist, opRec{"update", vk.Hex(k), vk.Hex(v)})
								if uerr := tr.Update(cp(k), cp(v)); uerr != nil {
									fail("op-error:Update mode=concurrent-commit", fmt.Sprintf("writer %d Update(%x): %v", w.id, k, uerr), nil)
									return
								}
								w.model[string(k)] = v
							}
							r.Count("conc_writer_ops", 1)
							if w.rng.Chance(1, 3) {
								runtime.Gosched()
							}
						}
					})
					if p {
						fail("panic mode=concurrent-commit frame="+vk.TopFrame(st), fmt.Sprintf("writer %d panicked: %v", w.id, pv), map[string]interface{}{"stack": st})
					}
				}(w)
			}
			committerDone := make(chan struct{})
			go func() {
				defer close(committerDone)
				p, pv, st := vk.Guard(func() {
					for atomic.LoadInt32(&writersDone) == 0 {
						before := atomic.LoadUint64(&ydb.puts)
						if cerr := tr.Commit(); cerr != nil {
							fail("op-error:Commit mode=concurrent-commit", fmt.Sprintf("Commit while writers run: %v", cerr), nil)
							return
						}
						r.Count("conc_commits_while_writing", 1)
						if atomic.LoadUint64(&ydb.puts) > before {
							r.Count("conc_commits_while_writing_that_stored_nodes", 1)
						}
						if _, herr := tr.RootHash(); herr != nil {
							fail("op-error:RootHash mode=concurrent-commit", fmt.Sprintf("RootHash while writers run: %v", herr), nil)
							return
						}
						runtime.Gosched()
					}
				})
				if p {
					fail("panic mode=concurrent-commit frame="+vk.TopFrame(st), fmt.Sprintf("committer panicked: %v", pv), map[string]interface{}{"stack": st})
				}
			}()
			wg.Wait()
			atomic.StoreInt32(&writersDone, 1)
			<-committerDone
			if flush() {
				return
			}

			// ---- quiescent point: one final Commit, then the reported root must be recoverable
			if cerr := tr.Commit(); cerr != nil {
				fail("op-error:Commit mode=concurrent-commit", fmt.Sprintf("final Commit: %v", cerr), nil)
				return
			}
			h, herr := tr.RootHash()
			if herr != nil {
				fail("op-error:RootHash mode=concurrent-commit", fmt.Sprintf("RootHash: %v", herr), nil)
				return
			}
			root := cp(h)
			union := map[string][]byte{}
			for _, w := range ws {
				for k, v := range w.model {
					union[k] = v
				}
			}
			r.Eval(1)
			r.Count("conc_quiescent_checks", 1)
			ctx := fmt.Sprintf("round %d, %d writers, level %d, root %x after the quiescent Commit", round, nW, level, root)
			// the live trie itself must agree with the union model (otherwise the model is not the committed content)
			for _, k := range pool {
				got, gerr := tr.Get(cp(k))
				if gerr != nil || !bytes.Equal(got, union[string(k)]) {
					fail("live-get-differs mode=concurrent-commit", fmt.Sprintf("%s: in-memory Get(%x) = %x err %v, written %x", ctx, k, got, gerr, union[string(k)]), nil)
					return
				}
			}
			fresh, nerr := env.NewTrie(triegen.Levels[rng.Intn(len(triegen.Levels))])
			if nerr != nil {
				r.Inconclusive("NewTrie: " + nerr.Error())
				return
			}
			rt, rerr := fresh.Recreate(cp(root))
			if rerr != nil || rt == nil || rt.IsInterfaceNil() {
				fail("recreate-failed mode=concurrent-commit", fmt.Sprintf("%s: Recreate: %v", ctx, rerr), nil)
				return
			}
			h2, _ := rt.RootHash()
			if !bytes.Equal(h2, root) {
				fail("recreated-root-differs mode=concurrent-commit", fmt.Sprintf("%s: recreated trie reports %x", ctx, h2), nil)
				return
			}
			for _, k := range pool {
				got, gerr := rt.Get(cp(k))
				want := union[string(k)]
				if gerr != nil || !bytes.Equal(got, want) {
					fail("recreated-get-differs mode=concurrent-commit", fmt.Sprintf("%s: recreated Get(%x) = %x err %v, committed value %x (the in-memory trie returns the committed value)", ctx, k, got, gerr, want), nil)
					return
				}
			}
			r.Count("conc_point_reads", len(pool))
			leaves, lerr := triegen.Leaves(rt, root)
			if lerr != nil {
				fail("recreated-leaves-error mode=concurrent-commit", fmt.Sprintf("%s: GetAllLeavesOnChannel: %v", ctx, lerr), nil)
				return
			}
			if class, text := triegen.DiffLeaves(leaves, union); class != "" {
				fail("recreated-"+class+" mode=concurrent-commit", fmt.Sprintf("%s: %s", ctx, text), nil)
				return
			}
			r.Count("conc_leaves_delivered", len(leaves))
			r.Max("conc_max_live_keys", int64(len(union)))
		}
		r.Count("conc_cases", 1)
		r.Shape(fmt.Sprintf("conc W%d L%d r%d", nW, level, nRounds))
		if idx < 3 && r.NeedSample() {
			var tail []opRec
			if h := ws[0].hist; len(h) > 6 {
				tail = h[len(h)-6:]
			}
			r.Sample(map[string]interface{}{"case": caseID, "mode": "concurrent-commit", "writers": nW, "rounds": nRounds, "level": level, "pool_keys": len(pool), "writer0_last_ops": tail})
		}
	})

	if r.ReplayCase < 0 {
		if r.Counter("conc_commits_while_writing_that_stored_nodes") < int64(nCases) {
			r.Inconclusive(fmt.Sprintf("concurrent phase: only %d Commit calls stored nodes while writers were running", r.Counter("conc_commits_while_writing_that_stored_nodes")))
		}
		// race reports (binary is built with -race when the RACE marker is present)
		races := vk.CollectRaces()
		var other []vk.RaceReport
		for _, rr := range races {
			inTrie := len(rr.Funcs) > 0
			for _, f := range rr.Funcs {
				if !strings.HasPrefix(f, "data/trie.") {
					inTrie = false
				}
			}
			if inTrie {
				fr := append([]string{}, rr.Funcs...)
				sort.Strings(fr)
				r.Violation(concCaseBase, "data-race in data/trie mode=concurrent-commit",
					fmt.Sprintf("race detector: %s (%d reports); every trie operation takes mutOperation, so concurrent Commit/Update/Delete must not race", rr.Key, rr.Count),
					map[string]interface{}{"frames": fr, "count": rr.Count, "first_report": rr.First})
			} else {
				other = append(other, rr)
			}
		}
		r.Extra("race_reports_total", len(races))
		if len(other) > 0 {
			r.Extra("race_reports_outside_data_trie", other)
		}
	}
}
