// C03 — committed trie state is recoverable from its root hash.
// Monitor shape: reference model over histories. Every committed root is remembered with a copy of the model
// map. At random points and at the end every remembered root is recreated (no pruning is wired, so none may be
// lost): root hash, full leaf set and point reads must equal the remembered map, and further operations applied to
// the recreated trie must behave like the same operations applied to the original trie (newest root: the original
// itself is continued with the same operations; older roots: a fresh trie built from the remembered pairs).
package main

import (
	"bytes"
	"fmt"
	"sort"

	logger "github.com/ElrondNetwork/elrond-go-logger"
	"github.com/ElrondNetwork/elrond-go/data"

	"verif/internal/triegen"
	"verif/internal/vk"
)

type op struct {
	del bool
	key []byte
	val []byte
}

type opRec struct {
	Op    string `json:"op"`
	Key   string `json:"key,omitempty"`
	Value string `json:"value,omitempty"`
}

type remembered struct {
	root  []byte
	model map[string][]byte
	at    int // index of the commit
}

func cp(b []byte) []byte { return append([]byte{}, b...) }

func cpMap(m map[string][]byte) map[string][]byte {
	o := make(map[string][]byte, len(m))
	for k, v := range m {
		o[k] = cp(v)
	}
	return o
}

func sortedKeys(m map[string][]byte) []string {
	ks := make([]string, 0, len(m))
	for k := range m {
		ks = append(ks, k)
	}
	sort.Strings(ks)
	return ks
}

func apply(tr data.Trie, o op) error {
	if o.del {
		return tr.Delete(cp(o.key))
	}
	return tr.Update(cp(o.key), cp(o.val))
}

func applyModel(m map[string][]byte, o op) {
	if o.del {
		delete(m, string(o.key))
	} else {
		m[string(o.key)] = cp(o.val)
	}
}

func main() {
	_ = logger.SetLogLevel("*:NONE")
	r := vk.Start("C03")
	r.Rule("each case: one storage, maxTrieLevelInMemory from {1,2,3,5,8}, a pool of 6-36 structured keys, a history with 3-10 commits and 2-14 " +
		"updates/deletes between commits, the working trie sometimes replaced by Recreate(last root). After about every third commit and at the end EVERY remembered root " +
		"is recreated (through the working trie or through a trie with another level) and compared (root hash, all leaves, point reads), then 5 further operations are " +
		"applied to the recreated trie and compared with the original continued by the same operations (newest root) or with a fresh trie rebuilt from the remembered pairs " +
		"(older roots), committed and recreated once more. Fork phase at the end of every history: the working trie is committed and forked with Recreate (own just-committed root, through another " +
		"trie object, older root); up to 4 trie objects stay in use as independent lines, 6-14 steps each mutate (1-4 updates/deletes, no reads in between), commit or fork ONE line; after every step the root of EVERY line " +
		"(also those not operated on) must equal a fresh trie rebuilt from that line's own pairs, periodically all point reads are compared; finally every line is committed and every line's root is recreated through a new trie object and compared. Non-trivial: the remembered map has at least 2 keys and a branch; shape signature = level, number of commits, " +
		"canonical node counts at the last commit.")
	r.Assume("no pruning is wired in this harness, so no committed root may be lost", "memorydb trusted", "blake2b collision resistance")
	r.MinShapes(50)

	nCases := r.N(500, 10000)
	r.Parallel(nCases, func(c *vk.Case) {
		if c.Idx >= concCaseBase {
			return // replay of a concurrent-phase case
		}
		rng := c.Rng
		level := triegen.Levels[rng.Intn(len(triegen.Levels))]
		env, err := triegen.NewEnv(level)
		if err != nil {
			r.Inconclusive("cannot build trie: " + err.Error())
			return
		}
		defer env.Close()
		var tr data.Trie = env.Trie
		pool := triegen.Pool(rng, rng.Range(6, 36))
		model := map[string][]byte{}
		var hist []opRec
		var roots []remembered
		nCommits := rng.Range(3, 10)

		fail := func(key, what string, extra map[string]interface{}) {
			d := map[string]interface{}{"level": level, "history": hist, "commits_so_far": len(roots)}
			for k, v := range extra {
				d[k] = v
			}
			r.Violation(c.Idx, key, what, d)
		}
		genOp := func(m map[string][]byte) op {
			k := pool[rng.Intn(len(pool))]
			if rng.Chance(3, 10) {
				if len(m) > 0 && rng.Chance(3, 4) {
					ks := sortedKeys(m)
					k = []byte(ks[rng.Intn(len(ks))])
				}
				return op{del: true, key: k}
			}
			return op{key: k, val: triegen.Value(rng)}
		}
		rec := func(o op) opRec {
			if o.del {
				return opRec{"delete", vk.Hex(o.key), ""}
			}
			return opRec{"update", vk.Hex(o.key), vk.Hex(o.val)}
		}

		// compareState: root hash, leaves, point reads of a trie against a map
		compareState := func(t data.Trie, wantRoot []byte, m map[string][]byte, ctx string) bool {
			r.Eval(1)
			r.Count("state_comparisons", 1)
			h, herr := t.RootHash()
			if herr != nil {
				fail("op-error:RootHash", fmt.Sprintf("%s: RootHash error %v", ctx, herr), nil)
				return false
			}
			if wantRoot != nil && !bytes.Equal(h, wantRoot) {
				fail("recreated-root-differs", fmt.Sprintf("%s: recreated from %x but RootHash() is %x", ctx, wantRoot, h), nil)
				return false
			}
			if wantRoot != nil {
				leaves, lerr := triegen.Leaves(t, wantRoot)
				if lerr != nil {
					fail("op-error:GetAllLeavesOnChannel", fmt.Sprintf("%s: %v", ctx, lerr), nil)
					return false
				}
				r.Count("leaves_delivered", len(leaves))
				if class, text := triegen.DiffLeaves(leaves, m); class != "" {
					fail("recreated-"+class, fmt.Sprintf("%s: %s", ctx, text), nil)
					return false
				}
			}
			for _, k := range pool {
				got, gerr := t.Get(cp(k))
				if gerr != nil {
					fail("op-error:Get", fmt.Sprintf("%s: Get(%x) error %v", ctx, k, gerr), nil)
					return false
				}
				want := m[string(k)]
				if !bytes.Equal(got, want) {
					fail("recreated-get-differs", fmt.Sprintf("%s: Get(%x) = %x, committed value %x", ctx, k, got, want), nil)
					return false
				}
			}
			r.Count("point_reads", len(pool))
			return true
		}

		// checkRoot: recreate one remembered root and continue on it
		checkRoot := func(rm remembered, newest bool) bool {
			ctx := fmt.Sprintf("root of commit #%d (%x), %d commits later", rm.at, rm.root, len(roots)-1-rm.at)
			base := tr
			lv := level
			if rng.Chance(1, 3) {
				lv = triegen.Levels[rng.Intn(len(triegen.Levels))]
				t2, e2 := env.NewTrie(lv)
				if e2 != nil {
					r.Inconclusive("NewTrie: " + e2.Error())
					return false
				}
				base = t2
			}
			rt, rerr := base.Recreate(cp(rm.root))
			r.Count("recreates", 1)
			if rerr != nil || rt == nil || rt.IsInterfaceNil() {
				fail("recreate-failed", fmt.Sprintf("%s: Recreate error: %v", ctx, rerr), nil)
				return false
			}
			if !compareState(rt, rm.root, rm.model, ctx) {
				return false
			}
			// continue: 5 further operations
			m2 := cpMap(rm.model)
			var cont []op
			for i := 0; i < 5; i++ {
				o := genOp(m2)
				cont = append(cont, o)
				applyModel(m2, o)
			}
			var contRec []opRec
			for _, o := range cont {
				contRec = append(contRec, rec(o))
			}
			// the reference continuation
			var refRoot []byte
			refName := ""
			if newest {
				// the original trie is still at this root: continue it with the same operations
				refName = "original"
				for _, o := range cont {
					hist = append(hist, rec(o))
					if aerr := apply(tr, o); aerr != nil {
						fail("op-error:Update/Delete", fmt.Sprintf("continuing the original: %v", aerr), nil)
						return false
					}
					applyModel(model, o)
				}
				h, _ := tr.RootHash()
				refRoot = cp(h)
			} else {
				refName = "rebuild"
				fe, ferr := triegen.NewEnv(5)
				if ferr != nil {
					r.Inconclusive("NewEnv: " + ferr.Error())
					return false
				}
				defer fe.Close()
				for _, k := range sortedKeys(m2) {
					if uerr := fe.Trie.Update([]byte(k), cp(m2[k])); uerr != nil {
						fail("op-error:Update", fmt.Sprintf("rebuild: %v", uerr), nil)
						return false
					}
				}
				h, _ := fe.Trie.RootHash()
				refRoot = cp(h)
			}
			mRun := cpMap(rm.model)
			for i, o := range cont {
				if aerr := apply(rt, o); aerr != nil {
					fail("continue-op-error", fmt.Sprintf("%s: operation %d on the recreated trie failed: %v", ctx, i, aerr), map[string]interface{}{"continuation": contRec})
					return false
				}
				applyModel(mRun, o)
				got, gerr := rt.Get(cp(o.key))
				if gerr != nil || !bytes.Equal(got, mRun[string(o.key)]) {
					fail("continue-get-differs", fmt.Sprintf("%s: after continuation op %d Get(%x) = %x err %v, expected %x", ctx, i, o.key, got, gerr, mRun[string(o.key)]), map[string]interface{}{"continuation": contRec})
					return false
				}
			}
			r.Eval(1)
			r.Count("continuations_"+refName, 1)
			h2, herr := rt.RootHash()
			if herr != nil {
				fail("op-error:RootHash", fmt.Sprintf("%s: RootHash after continuation: %v", ctx, herr), nil)
				return false
			}
			if !bytes.Equal(h2, refRoot) {
				fail("continue-root-differs-from-"+refName, fmt.Sprintf("%s: after the same 5 operations the recreated trie (level %d) has root %x, the %s has %x", ctx, lv, h2, refName, refRoot),
					map[string]interface{}{"continuation": contRec})
				return false
			}
			if !compareState(rt, nil, m2, ctx+" after continuation") {
				return false
			}
			// commit the continued recreated trie and recreate once more
			if cerr := rt.Commit(); cerr != nil {
				fail("op-error:Commit", fmt.Sprintf("%s: Commit of the continued recreated trie: %v", ctx, cerr), nil)
				return false
			}
			h3, _ := rt.RootHash()
			h3 = cp(h3)
			if !bytes.Equal(h3, refRoot) {
				fail("continue-root-changes-on-commit", fmt.Sprintf("%s: root %x before Commit, %x after", ctx, refRoot, h3), nil)
				return false
			}
			rt2, rerr2 := rt.Recreate(h3)
			r.Count("recreates", 1)
			if rerr2 != nil || rt2 == nil || rt2.IsInterfaceNil() {
				fail("recreate-failed", fmt.Sprintf("%s: Recreate(%x) of the continued+committed trie: %v", ctx, h3, rerr2), map[string]interface{}{"continuation": contRec})
				return false
			}
			return compareState(rt2, h3, m2, ctx+" continued, committed, recreated again")
		}

		checkAll := func() bool {
			// the newest root is checked only when the working trie is exactly at it (right after a commit)
			for i := range roots {
				newest := i == len(roots)-1
				if !checkRoot(roots[i], newest) {
					return false
				}
			}
			r.Max("max_roots_checked_at_once", int64(len(roots)))
			return true
		}

		ok := true
		for ci := 0; ci < nCommits && ok; ci++ {
			n := rng.Range(2, 14)
			for i := 0; i < n; i++ {
				o := genOp(model)
				hist = append(hist, rec(o))
				if aerr := apply(tr, o); aerr != nil {
					fail("op-error:Update/Delete", fmt.Sprintf("%v", aerr), nil)
					return
				}
				applyModel(model, o)
				r.Count("ops", 1)
			}
			hist = append(hist, opRec{Op: "commit"})
			if cerr := tr.Commit(); cerr != nil {
				fail("op-error:Commit", fmt.Sprintf("Commit: %v", cerr), nil)
				return
			}
			r.Count("commits", 1)
			h, herr := tr.RootHash()
			if herr != nil {
				fail("op-error:RootHash", fmt.Sprintf("%v", herr), nil)
				return
			}
			roots = append(roots, remembered{root: cp(h), model: cpMap(model), at: ci})
			if ci == nCommits-1 || rng.Chance(1, 3) {
				hist = append(hist, opRec{Op: "check-all-roots+continue"})
				ok = checkAll()
				if ok {
					// checkAll continued the original with 5 operations: it is dirty now; that is part of the history
				}
			} else if rng.Chance(1, 4) {
				// replace the working trie by the recreated one and go on (recreate interleaved with mutation)
				hist = append(hist, opRec{Op: "switch-to-recreated"})
				nt, rerr := tr.Recreate(cp(h))
				r.Count("recreates", 1)
				if rerr != nil || nt == nil || nt.IsInterfaceNil() {
					fail("recreate-failed", fmt.Sprintf("Recreate(%x) right after Commit: %v", h, rerr), nil)
					return
				}
				tr = nt
			}
		}
		if !ok {
			return
		}
		// fork phase (fork.go): recreated tries and their originals kept in use side by side
		hist = append(hist, opRec{Op: "fork-phase"})
		if !runForkPhase(r, c, env, level, tr, model, roots, pool, fail) {
			return
		}
		last := roots[len(roots)-1]
		sh := triegen.ShapeOf(func() [][]byte {
			var ks [][]byte
			for k := range last.model {
				ks = append(ks, []byte(k))
			}
			return ks
		}())
		if len(last.model) >= 2 && sh.Branches >= 1 {
			r.Shape(fmt.Sprintf("L%d c%d %s", level, nCommits, sh))
		} else {
			r.Trivial()
		}
		r.Count("histories", 1)
		r.Max("max_live_keys", int64(len(last.model)))
		if c.Idx < 40 && r.NeedSample() {
			hh := hist
			if len(hh) > 10 {
				hh = hh[:10]
			}
			r.Sample(map[string]interface{}{"case": c.Idx, "level": level, "commits": nCommits, "history_len": len(hist), "first_ops": hh, "last_root": vk.Hex(last.root), "last_shape": sh.String()})
		}
	})
	if r.ReplayCase < 0 && r.Violations() == 0 && r.Counter("fork_cases_with_two_or_more_mutated_lines") < int64(nCases/2) {
		r.Inconclusive(fmt.Sprintf("fork phase: only %d cases had two or more live tries that were both mutated", r.Counter("fork_cases_with_two_or_more_mutated_lines")))
	}
	runConcurrentPhase(r)
	r.Finish()
}
