// C31 — bloom filter: no false negatives (until Clear) and race-free Add/MayContain.
// Monitor shapes: RM (sequential reference set), HIST (porcupine, "MayContain(k) is true for every k whose
// Add returned before the call started", partitioned by key) and RACE (race detector over adders + queriers).
package main

import (
	"fmt"
	"runtime"
	"sort"
	"strings"
	"sync"
	"sync/atomic"
	"time"

	"github.com/ElrondNetwork/elrond-go/hashing"
	"github.com/ElrondNetwork/elrond-go/hashing/blake2b"
	"github.com/ElrondNetwork/elrond-go/hashing/fnv"
	"github.com/ElrondNetwork/elrond-go/hashing/keccak"
	"github.com/ElrondNetwork/elrond-go/storage/bloom"
	"github.com/anishathalye/porcupine"
	"verif/internal/vk"
)

var hasherNames = []string{"keccak", "blake2b", "fnv"}

func mkHasher(i int) hashing.Hasher {
	switch i {
	case 0:
		return keccak.NewKeccak()
	case 1:
		return blake2b.NewBlake2b()
	default:
		return fnv.NewFnv()
	}
}

var edgeSizes = []int{4, 5, 6, 7, 8, 9, 15, 16, 17, 31, 32, 33, 63, 64, 65, 100, 127, 128, 255, 256, 257, 511, 512, 1000, 1023, 1024, 2047, 2048}

func pickSize(rng *vk.Rand) int {
	if rng.Chance(1, 2) {
		return edgeSizes[rng.Intn(len(edgeSizes))]
	}
	return rng.Range(4, 2048)
}

func sizeClass(n int) string {
	switch {
	case n <= 8:
		return "4-8"
	case n <= 64:
		return "9-64"
	case n <= 512:
		return "65-512"
	default:
		return "513-2048"
	}
}

// pickHashers returns 1..3 distinct hashers in random order
func pickHashers(rng *vk.Rand) ([]hashing.Hasher, string) {
	n := rng.Range(1, 3)
	p := rng.Perm(3)[:n]
	var hs []hashing.Hasher
	var names []string
	for _, i := range p {
		hs = append(hs, mkHasher(i))
		names = append(names, hasherNames[i])
	}
	return hs, strings.Join(names, "+")
}

func genKey(rng *vk.Rand) []byte {
	switch rng.Intn(10) {
	case 0:
		return []byte{}
	case 1:
		return []byte{byte(rng.Intn(256))}
	case 2:
		return rng.Bytes(32)
	default:
		return rng.Bytes(rng.Range(1, 40))
	}
}

func bucket(n int) string {
	switch {
	case n == 0:
		return "0"
	case n <= 4:
		return "1-4"
	case n <= 32:
		return "5-32"
	default:
		return ">32"
	}
}

// ------------------------------------------------------------------------------------------------
// sequential reference-set monitor

func sequentialCase(r *vk.Run, c *vk.Case) {
	rng := c.Rng
	size := pickSize(rng)
	hs, hname := pickHashers(rng)
	f, err := bloom.NewFilter(uint(size), hs)
	if err != nil {
		r.Violation(c.Idx, "constructor", fmt.Sprintf("NewFilter(%d, %s): %v", size, hname, err), nil)
		return
	}
	steps := rng.Range(20, r.N(160, 400))
	added := map[string]bool{} // since the last Clear
	var order []string
	var trace []string
	adds, clears, fpos, queries := 0, 0, 0, 0
	checkAll := func(step int) bool {
		for _, k := range order {
			ok := f.MayContain([]byte(k))
			r.Eval(1)
			queries++
			if !ok {
				r.Violation(c.Idx, "false-negative mode=sequential",
					fmt.Sprintf("size=%d hashers=%s: key %x was added (and no Clear since) but MayContain is false at step %d", size, hname, k, step),
					map[string]interface{}{"size": size, "hashers": hname, "key": vk.Hex([]byte(k)), "step": step, "trace": trace})
				return false
			}
		}
		return true
	}
	for step := 0; step < steps; step++ {
		switch op := rng.Intn(20); {
		case op < 10: // add (new key or one already present)
			var k []byte
			if len(order) > 0 && rng.Chance(1, 6) {
				k = []byte(order[rng.Intn(len(order))])
			} else {
				k = genKey(rng)
			}
			mine := string(k) // the harness's own copy
			arg := append([]byte{}, k...)
			f.Add(arg)
			for i := range arg { // hostile: the caller reuses its buffer
				arg[i] ^= 0xff
			}
			adds++
			trace = append(trace, "Add "+vk.Hex([]byte(mine)))
			if !added[mine] {
				added[mine] = true
				order = append(order, mine)
			}
			r.Eval(1)
			queries++
			if !f.MayContain([]byte(mine)) {
				r.Violation(c.Idx, "false-negative mode=sequential",
					fmt.Sprintf("size=%d hashers=%s: MayContain(%x) false right after Add", size, hname, mine),
					map[string]interface{}{"size": size, "hashers": hname, "key": vk.Hex([]byte(mine)), "step": step, "trace": trace})
				return
			}
		case op < 15: // query an added key
			if len(order) == 0 {
				continue
			}
			k := order[rng.Intn(len(order))]
			r.Eval(1)
			queries++
			if !f.MayContain([]byte(k)) {
				r.Violation(c.Idx, "false-negative mode=sequential",
					fmt.Sprintf("size=%d hashers=%s: key %x added, MayContain false at step %d", size, hname, k, step),
					map[string]interface{}{"size": size, "hashers": hname, "key": vk.Hex([]byte(k)), "step": step, "trace": trace})
				return
			}
		case op < 17: // query a key that was (most probably) never added: any answer is allowed
			k := rng.Bytes(rng.Range(41, 48))
			if f.MayContain(k) {
				fpos++
			}
			queries++
		case op < 18:
			f.Clear()
			clears++
			trace = append(trace, "Clear")
			added = map[string]bool{}
			order = nil
		default:
			if !checkAll(step) {
				return
			}
		}
	}
	if !checkAll(steps) {
		return
	}
	r.Count("seq_adds", adds)
	r.Count("seq_queries", queries)
	r.Count("seq_clears", clears)
	r.Count("seq_positive_on_never_added", fpos)
	if adds == 0 {
		r.Trivial()
		return
	}
	r.Shape(fmt.Sprintf("seq size=%s h=%s adds=%s clear=%v", sizeClass(size), hname, bucket(adds), clears > 0))
	if c.Idx < 3 && r.NeedSample() {
		n := len(trace)
		if n > 12 {
			n = 12
		}
		r.Sample(map[string]interface{}{"mode": "sequential", "size": size, "hashers": hname, "first_ops": trace[:n], "adds": adds, "clears": clears})
	}
}

// ------------------------------------------------------------------------------------------------
// concurrent adders + queriers; history checked with porcupine (partition = key)

type bIn struct {
	add bool
	key int
}

var bloomModel = porcupine.Model{
	Partition: func(h []porcupine.Operation) [][]porcupine.Operation {
		m := map[int][]porcupine.Operation{}
		var ks []int
		for _, o := range h {
			k := o.Input.(bIn).key
			if _, ok := m[k]; !ok {
				ks = append(ks, k)
			}
			m[k] = append(m[k], o)
		}
		sort.Ints(ks)
		out := make([][]porcupine.Operation, 0, len(ks))
		for _, k := range ks {
			out = append(out, m[k])
		}
		return out
	},
	Init: func() interface{} { return false }, // per key: "has been added"
	Step: func(st, in, out interface{}) (bool, interface{}) {
		i := in.(bIn)
		if i.add {
			return true, true
		}
		if st.(bool) {
			return out.(bool), true // must answer true once added
		}
		return true, false // never added: both answers allowed
	},
	Equal: func(a, b interface{}) bool { return a.(bool) == b.(bool) },
}

func concurrentCase(r *vk.Run, c *vk.Case) {
	rng := c.Rng
	var size int
	if rng.Chance(3, 4) {
		size = rng.Range(4, 48) // small filters: the same byte is hit by adders and queriers
	} else {
		size = pickSize(rng)
	}
	hs, hname := pickHashers(rng)
	f, err := bloom.NewFilter(uint(size), hs)
	if err != nil {
		r.Violation(c.Idx, "constructor", fmt.Sprintf("NewFilter(%d, %s): %v", size, hname, err), nil)
		return
	}
	nKeys := rng.Range(4, 24)
	keys := make([][]byte, nKeys)
	for i := range keys {
		keys[i] = append(rng.Bytes(rng.Range(1, 32)), byte(i)) // distinct
	}
	adders, queriers := rng.Range(2, 5), rng.Range(2, 5)
	opsPer := rng.Range(10, r.N(40, 80))
	rounds := 2 // the second round runs after a Clear at a quiescent point
	var clock int64
	totalOps := 0
	for round := 0; round < rounds; round++ {
		var mu sync.Mutex
		var hist []porcupine.Operation
		var wg sync.WaitGroup
		start := make(chan struct{})
		for g := 0; g < adders+queriers; g++ {
			wg.Add(1)
			isAdder := g < adders
			grng := rng.Fork()
			go func(g int) {
				defer wg.Done()
				local := make([]porcupine.Operation, 0, opsPer)
				<-start
				for i := 0; i < opsPer; i++ {
					k := grng.Intn(nKeys)
					buf := append([]byte{}, keys[k]...)
					doAdd := isAdder && !grng.Chance(1, 5)
					call := atomic.AddInt64(&clock, 1)
					var out interface{}
					if doAdd {
						f.Add(buf)
					} else {
						out = f.MayContain(buf)
					}
					ret := atomic.AddInt64(&clock, 1)
					local = append(local, porcupine.Operation{ClientId: g, Input: bIn{add: doAdd, key: k}, Call: call, Output: out, Return: ret})
				}
				mu.Lock()
				hist = append(hist, local...)
				mu.Unlock()
			}(g)
		}
		close(start)
		wg.Wait()
		totalOps += len(hist)

		res := porcupine.CheckOperationsTimeout(bloomModel, hist, 60*time.Second)
		r.Eval(len(hist))
		r.Count("conc_histories", 1)
		r.Count("conc_ops", len(hist))
		if res == porcupine.Unknown {
			r.Inconclusive("porcupine timeout on a bloom history")
			return
		}
		if res == porcupine.Illegal {
			r.Violation(c.Idx, "false-negative mode=concurrent",
				fmt.Sprintf("size=%d hashers=%s: history of %d ops is not explained by 'MayContain is true for every key whose Add returned before'", size, hname, len(hist)),
				map[string]interface{}{"size": size, "hashers": hname, "history": describe(hist, keys)})
			return
		}
		// quiescent point: everything added in this round must be reported
		wasAdded := map[int]bool{}
		for _, o := range hist {
			if in := o.Input.(bIn); in.add {
				wasAdded[in.key] = true
			}
		}
		for k := range wasAdded {
			r.Eval(1)
			if !f.MayContain(keys[k]) {
				r.Violation(c.Idx, "false-negative mode=concurrent-quiescent",
					fmt.Sprintf("size=%d hashers=%s: key %x added concurrently, MayContain false after all goroutines finished", size, hname, keys[k]),
					map[string]interface{}{"size": size, "hashers": hname, "key": vk.Hex(keys[k])})
				return
			}
		}
		if round == 0 {
			f.Clear() // quiescent: no other goroutine touches the filter
		}
	}
	// third round, not recorded: no harness-side synchronisation inside the loops (the atomic clock of the
	// recorded rounds orders the goroutines and can hide races from the detector)
	{
		f.Clear()
		addedBy := make([]map[int]bool, adders+queriers)
		var wg sync.WaitGroup
		start := make(chan struct{})
		for g := 0; g < adders+queriers; g++ {
			wg.Add(1)
			isAdder := g < adders
			grng := rng.Fork()
			addedBy[g] = map[int]bool{}
			go func(g int) {
				defer wg.Done()
				<-start
				for i := 0; i < opsPer; i++ {
					k := grng.Intn(nKeys)
					buf := append([]byte{}, keys[k]...)
					if isAdder && !grng.Chance(1, 5) {
						f.Add(buf)
						addedBy[g][k] = true
					} else {
						_ = f.MayContain(buf)
					}
				}
			}(g)
		}
		close(start)
		wg.Wait()
		r.Count("conc_unrecorded_ops", (adders+queriers)*opsPer)
		for _, m := range addedBy {
			for k := range m {
				r.Eval(1)
				if !f.MayContain(keys[k]) {
					r.Violation(c.Idx, "false-negative mode=concurrent-quiescent",
						fmt.Sprintf("size=%d hashers=%s: key %x added concurrently, MayContain false after all goroutines finished", size, hname, keys[k]),
						map[string]interface{}{"size": size, "hashers": hname, "key": vk.Hex(keys[k])})
					return
				}
			}
		}
	}
	r.Shape(fmt.Sprintf("conc size=%s h=%s adders=%d queriers=%d keys=%s", sizeClass(size), hname, adders, queriers, bucket(nKeys)))
	if r.NeedSample() && c.Rng.Chance(1, 4) {
		r.Sample(map[string]interface{}{"mode": "concurrent", "size": size, "hashers": hname, "adders": adders, "queriers": queriers, "keys": nKeys, "ops": totalOps})
	}
}

// ------------------------------------------------------------------------------------------------
// burst monitor: rounds of {Clear, N Adds of distinct keys released together, sweep}. The filter is tiny
// (2..4 bytes) so that the concurrent Adds update the same bytes, and its hashers are decorated with a
// rendezvous: every Compute call of a round returns only once all the Compute calls of that round have
// arrived, so that the Adds reach the filter update at the same moment. The decorator acts before Add takes
// its mutex (Compute is called by getBitsIndexes, outside any lock), i.e. at a point where the real code can be
// pre-empted for any length of time. Oracle: after all the Adds of the round returned (and no Clear since),
// MayContain is true for each of their keys.

type rendezvous struct {
	armed   int32
	parties int32
	arrived int32
	stagger int32 // >0: after the release, yield (hash of the input mod stagger) times
	gaveUp  int64
}

func (b *rendezvous) arm(parties int) {
	atomic.StoreInt32(&b.arrived, 0)
	atomic.StoreInt32(&b.parties, int32(parties))
	atomic.StoreInt32(&b.armed, 1)
}

func (b *rendezvous) disarm() { atomic.StoreInt32(&b.armed, 0) }

func (b *rendezvous) wait(salt byte) {
	if atomic.LoadInt32(&b.armed) != 1 {
		return
	}
	atomic.AddInt32(&b.arrived, 1)
	for spins := 0; atomic.LoadInt32(&b.arrived) < atomic.LoadInt32(&b.parties); spins++ {
		if spins > 5000000 { // never expected (the party count is exact); only a guard against a hang
			atomic.AddInt64(&b.gaveUp, 1)
			return
		}
		runtime.Gosched()
	}
	if st := atomic.LoadInt32(&b.stagger); st > 0 {
		for i := int32(salt) % st; i > 0; i-- {
			runtime.Gosched()
		}
	}
}

// rendezvousHasher is a hashing.Hasher decorator: same digests as the wrapped hasher
type rendezvousHasher struct {
	hashing.Hasher
	b *rendezvous
}

func (h *rendezvousHasher) Compute(s string) []byte {
	res := h.Hasher.Compute(s)
	var salt byte
	if len(res) > 0 {
		salt = res[len(res)-1]
	}
	h.b.wait(salt)
	return res
}

func burstCase(r *vk.Run, c *vk.Case) {
	rng := c.Rng
	size := rng.Range(2, 4)
	nh := rng.Range(1, size-1) // NewFilter wants size > number of hashers
	if nh > 3 {
		nh = 3
	}
	p := rng.Perm(3)[:nh]
	bar := &rendezvous{}
	if rng.Chance(1, 3) {
		bar.stagger = int32(rng.Range(2, 4))
	}
	var hs []hashing.Hasher
	var names []string
	for _, i := range p {
		hs = append(hs, &rendezvousHasher{Hasher: mkHasher(i), b: bar})
		names = append(names, hasherNames[i])
	}
	hname := strings.Join(names, "+")
	f, err := bloom.NewFilter(uint(size), hs)
	if err != nil {
		r.Violation(c.Idx, "constructor", fmt.Sprintf("NewFilter(%d, %s): %v", size, hname, err), nil)
		return
	}
	adders := rng.Range(3, 8)
	rounds := r.N(burstRoundsQuick, burstRoundsThorough)
	keys := make([][]byte, adders)
	for round := 0; round < rounds; round++ {
		f.Clear() // quiescent: no other goroutine touches the filter
		for i := range keys {
			keys[i] = append(rng.Bytes(rng.Range(1, 24)), byte(i)) // distinct within the round
		}
		bar.arm(adders * nh)
		var wg sync.WaitGroup
		wg.Add(adders)
		for i := range keys {
			go func(k []byte) {
				f.Add(k)
				wg.Done()
			}(append([]byte{}, keys[i]...))
		}
		wg.Wait()
		bar.disarm()
		for i, k := range keys {
			r.Eval(1)
			if !f.MayContain(k) {
				all := make([]string, len(keys))
				for j := range keys {
					all[j] = vk.Hex(keys[j])
				}
				r.Violation(c.Idx, "false-negative mode=concurrent-burst",
					fmt.Sprintf("size=%d hashers=%s: %d keys added by concurrent Add calls released together after a Clear; all Adds returned, MayContain(%x) is false (round %d)", size, hname, adders, k, round),
					map[string]interface{}{"size": size, "hashers": hname, "round": round, "keys": all, "lost": i})
				r.Count("burst_rounds", round+1)
				return
			}
		}
	}
	r.Count("burst_rounds", rounds)
	r.Count("burst_adds", rounds*adders)
	r.Count("burst_rendezvous_gave_up", int(atomic.LoadInt64(&bar.gaveUp)))
	r.Shape(fmt.Sprintf("burst size=%d h=%s adders=%d stagger=%d", size, hname, adders, bar.stagger))
	if c.Idx%7 == 0 && r.NeedSample() {
		r.Sample(map[string]interface{}{"mode": "burst", "size": size, "hashers": hname, "adders": adders, "rounds": rounds, "stagger": bar.stagger})
	}
}

const (
	burstRoundsQuick    = 100
	burstRoundsThorough = 500
)

func describe(h []porcupine.Operation, keys [][]byte) []string {
	sort.Slice(h, func(i, j int) bool { return h[i].Call < h[j].Call })
	var out []string
	for _, o := range h {
		in := o.Input.(bIn)
		if in.add {
			out = append(out, fmt.Sprintf("[%d,%d] g%d Add(k%d=%x)", o.Call, o.Return, o.ClientId, in.key, keys[in.key]))
		} else {
			out = append(out, fmt.Sprintf("[%d,%d] g%d MayContain(k%d)=%v", o.Call, o.Return, o.ClientId, in.key, o.Output))
		}
		if len(out) > 400 {
			break
		}
	}
	return out
}

func main() {
	r := vk.Start("C31")
	r.Rule("sequential: filter size 4..2048 bytes (half from boundary sizes), 1-3 distinct hashers of {keccak,blake2b,fnv} in random order, 20..160/400 ops (Add new/duplicate key of 0..40 bytes with the caller's buffer overwritten afterwards, MayContain of an added key, MayContain of a fresh key, Clear, full sweep of all keys added since the last Clear); non-trivial = at least one Add; shape = (size class, hasher list, #adds bucket, Clear seen). concurrent: 2-5 adders + 2-5 queriers over 4..24 shared keys on a mostly small filter (4..48 bytes, so adders and queriers touch the same bytes), two rounds separated by a Clear at a quiescent point; every history goes to porcupine (partition by key) and the race detector watches the run. burst: 60/200 cases x 100/500 rounds of {Clear, 3-8 Adds of fresh distinct keys from concurrent goroutines, sweep of all of them} on a 2-4 byte filter (1-3 hashers) whose hashers are decorated with a rendezvous (every Compute of a round returns once all have arrived; optionally followed by 0-3 yields) so that the Adds update the same bytes at the same moment; oracle = no false negative for a key whose Add returned after the last Clear")
	r.Assume("hash functions are deterministic", "Clear is only called at quiescent points (the property states race-freedom for adding and querying)", "the rendezvous hasher decorator returns the wrapped hasher's digest and only delays Compute, which Add/MayContain call outside their mutex", "race detector (-race) and porcupine v1.3.0 are trusted")
	r.MinShapes(30)

	nSeq := r.N(500, 5000)
	nConc := r.N(250, 1500)
	r.Parallel(nSeq+nConc, func(c *vk.Case) {
		switch {
		case c.Idx < nSeq:
			sequentialCase(r, c)
		case c.Idx < nSeq+nConc:
			concurrentCase(r, c)
		} // a replayed burst case is run below
	})

	// burst rounds: few cases at a time, so that the parties of a rendezvous really run in parallel
	nBurst := r.N(60, 200)
	bw := runtime.GOMAXPROCS(0) / 6
	if bw < 1 {
		bw = 1
	}
	base := nSeq + nConc
	r.ParallelW(base+nBurst, bw, func(c *vk.Case) {
		if c.Idx >= base {
			burstCase(r, c)
		}
	})

	// race reports: a violation when an access is inside storage/bloom
	races := vk.CollectRaces()
	var other []vk.RaceReport
	inPkg := 0
	for _, rr := range races {
		hit := false
		for _, fn := range rr.Funcs {
			if strings.HasPrefix(fn, "storage/bloom.") {
				hit = true
			}
		}
		if !hit {
			other = append(other, rr)
			continue
		}
		inPkg++
		r.Violation(nSeq, "data-race "+rr.Key,
			fmt.Sprintf("race detector: %s (%d reports)", rr.Key, rr.Count),
			map[string]interface{}{"frames": rr.Funcs, "count": rr.Count, "first_report": rr.First})
	}
	r.Extra("race_reports_in_storage_bloom", inPkg)
	r.Extra("race_detector_active", raceEnabled)
	if len(other) > 0 {
		r.Extra("race_reports_elsewhere", other)
		r.Inconclusive(fmt.Sprintf("race report outside storage/bloom: %s", other[0].Key))
	}
	if !raceEnabled && r.ReplayCase < 0 {
		r.Inconclusive("binary built without -race: the race-freedom half was not observed")
	}
	r.Finish()
}
