//go:build !race
// +build !race

package main

const raceEnabled = false
