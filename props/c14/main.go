// C14 — reshuffling keeps every shard at its minimum size.
// Monitor shape: invariant over the real NodesShuffler.UpdateNodeLists, generator restricted to the
// precondition (waiting-list fix active at the call's epoch, every shard and the metachain start with
// eligible+waiting >= their minimum). Oracle: len(Eligible[s]) >= minimum(s) for every shard and the
// metachain, whatever the leaving volume.
package main

import (
	"fmt"

	logger "github.com/ElrondNetwork/elrond-go-logger"
	sg "verif/internal/shufflegen"
	"verif/internal/vk"
)

func main() {
	_ = logger.SetLogLevel("*:NONE")
	r := vk.Start("C14")
	r.Rule("shuffler inputs as for C12 restricted to the precondition: epoch >= WaitingListFixEnableEpoch and every shard/metachain has eligible+waiting >= its minimum (1-5); leaving volume biased to heavy (none/light/medium/heavy/all of eligible and/or waiting, plus unknown and duplicated keys), any MaxNodesChangeConfig (NodesToShufflePerShard 0-6), both distributors; non-trivial = at least one known validator asked to leave; distinct = distinct input signatures")
	r.Assume("the minimum of a shard is NodesShard, of the metachain NodesMeta, as given to NewHashValidatorsShuffler", "eligible, waiting and new keys are pairwise distinct")
	r.MinShapes(200)
	n := r.N(20000, 1200000)

	r.Parallel(n, func(c *vk.Case) {
		in := sg.Gen(c.Rng, sg.Opts{RequireMin: true, ForceFix: true, HeavyLeave: true})
		if !in.MeetsMin() || !in.FixActive() {
			panic("generator broke the precondition")
		}
		out := in.Run(nil)
		r.Eval(1)
		detail := func() map[string]interface{} {
			return map[string]interface{}{"input": in.Dump(), "output": out.Dump()}
		}
		if out.Err != "" {
			// with the precondition the shuffler has no reason to refuse; without a result there is no new
			// eligible list at all, which is reported under its own key
			r.Violation(c.Idx, "error-under-precondition", "UpdateNodeLists failed under the precondition: "+out.Err, detail())
			return
		}
		known := 0
		for _, l := range in.Unstake {
			if l.Class == "eligible" || l.Class == "waiting" {
				known++
			}
		}
		for _, l := range in.Additional {
			if l.Class == "eligible" || l.Class == "waiting" {
				known++
			}
		}
		atMin := 0
		for _, s := range in.Shards() {
			r.Eval(1)
			if got, min := len(out.Eligible[s]), in.Min(s); got < min {
				r.Violation(c.Idx, "shard-below-minimum",
					fmt.Sprintf("shard %s has %d eligible after reshuffling, minimum %d (before: %d eligible + %d waiting)", sg.ShardName(s), got, min, len(in.Eligible[s]), len(in.Waiting[s])), detail())
				break
			}
			if len(in.Eligible[s])+len(in.Waiting[s]) == in.Min(s) {
				atMin++
			}
		}
		if known == 0 {
			r.Trivial()
			return
		}
		r.Shape(in.Sig())
		r.Count("results_checked", 1)
		r.Count("leaving_requests_known_keys", known)
		r.Count("keys_in_Leaving_result", len(out.Leaving))
		r.Count("keys_in_StillRemaining_result", len(out.StillRemaining))
		r.Count("shards_starting_exactly_at_minimum", atMin)
		r.Count("leaving_mode_"+in.LeavingMode, 1)
		if len(out.StillRemaining) > 0 {
			r.Count("cases_where_the_cap_refused_a_request", 1)
		}
		if r.NeedSample() && in.NbShards <= 2 && len(out.StillRemaining) > 0 && len(out.Leaving) > 0 {
			r.Sample(detail())
		}
	})
	r.Finish()
}
