// API-level phase of C04: the getters behind /proof/address/:address, /proof/root-hash/:roothash/address/:address and
// /proof/verify, i.e. nodeFacade.GetProofCurrentRootHash / GetProof / VerifyProof, assembled from the real parts:
// real trie + storage manager, real AccountsDB, real blockchain holder (data/blockchain), real node.Node for the
// address codec (bech32), real nodeFacade. The only harness part is hookedAccounts, a decorator of the AccountsDB that
// can run a callback right after GetTrie returned (no lock of the code under test is held there). The callback plays
// the block processor: it changes accounts, commits and installs the next block header as the current one, so the
// current header changes between - and in the middle of - API calls. Everything is sequential and deterministic.
//
// Oracles (all from the statement, for addresses whose presence is known for every root the call can refer to):
//   - the (proof, root hash) pair returned by ONE GetProofCurrentRootHash call for a present address verifies through
//     VerifyProof(root hash, address, proof); the root hash is one that was current while the call ran;
//   - GetProof(root, address) of an address present under that (current or historical) root verifies for that root;
//   - no returned proof verifies for an address absent under the root it is checked against;
//   - nothing panics.
package main

import (
	"bytes"
	"encoding/hex"
	"fmt"
	"math/big"

	"github.com/ElrondNetwork/elrond-go/config"
	"github.com/ElrondNetwork/elrond-go/core/pubkeyConverter"
	"github.com/ElrondNetwork/elrond-go/data"
	"github.com/ElrondNetwork/elrond-go/data/block"
	"github.com/ElrondNetwork/elrond-go/data/blockchain"
	"github.com/ElrondNetwork/elrond-go/data/state"
	"github.com/ElrondNetwork/elrond-go/data/state/factory"
	"github.com/ElrondNetwork/elrond-go/data/state/storagePruningManager/disabled"
	"github.com/ElrondNetwork/elrond-go/facade"
	facadeMock "github.com/ElrondNetwork/elrond-go/facade/mock"
	"github.com/ElrondNetwork/elrond-go/node"
	nodeMockFactory "github.com/ElrondNetwork/elrond-go/node/mock/factory"
	"github.com/ElrondNetwork/elrond-go/statusHandler"
	"github.com/ElrondNetwork/elrond-go/testscommon"

	"verif/internal/triegen"
	"verif/internal/vk"
)

// hookedAccounts is the AccountsDB seen by the facade; afterGetTrie (one-shot) runs after the real GetTrie returned
type hookedAccounts struct {
	state.AccountsAdapter
	afterGetTrie func()
}

func (h *hookedAccounts) GetTrie(rootHash []byte) (data.Trie, error) {
	tr, err := h.AccountsAdapter.GetTrie(rootHash)
	if f := h.afterGetTrie; f != nil {
		h.afterGetTrie = nil
		f()
	}
	return tr, err
}

func (h *hookedAccounts) IsInterfaceNil() bool { return h == nil }

type apiWorld struct {
	r     *vk.Run
	c     *vk.Case
	adb   *state.AccountsDB
	hook  *hookedAccounts
	chain data.ChainHandler
	fac   interface {
		GetProof(rootHash string, address string) ([][]byte, error)
		GetProofCurrentRootHash(address string) ([][]byte, []byte, error)
		VerifyProof(rootHash string, address string, proof [][]byte) (bool, error)
	}
	enc     func([]byte) string
	pool    [][]byte          // candidate addresses
	present map[string]bool   // present in the latest committed state
	roots   [][]byte          // root of block i (index = nonce-1)
	sets    []map[string]bool // addresses present under roots[i]
	nonce   uint64
	failed  string
	log     []string
}

// commitBlock plays one processed block: changes some accounts, possibly creates new ones, commits the state and
// installs the header as current block header
func (w *apiWorld) commitBlock() {
	rng := w.c.Rng
	touched := 0
	for _, a := range w.pool {
		isNew := !w.present[string(a)]
		if isNew && !(len(w.present) < 2 || rng.Chance(1, 4)) {
			continue
		}
		if !isNew && touched > 0 && rng.Chance(1, 2) {
			continue
		}
		acc, err := w.adb.LoadAccount(cp(a))
		if err != nil {
			w.failed = "LoadAccount: " + err.Error()
			return
		}
		ua, ok := acc.(state.UserAccountHandler)
		if !ok {
			w.failed = "account type"
			return
		}
		_ = ua.AddToBalance(big.NewInt(int64(1 + rng.Intn(1000))))
		ua.IncreaseNonce(1)
		if err = w.adb.SaveAccount(ua); err != nil {
			w.failed = "SaveAccount: " + err.Error()
			return
		}
		w.present[string(a)] = true
		touched++
	}
	root, err := w.adb.Commit()
	if err != nil {
		w.failed = "AccountsDB.Commit: " + err.Error()
		return
	}
	w.nonce++
	if err = w.chain.SetCurrentBlockHeader(&block.Header{Nonce: w.nonce, Round: w.nonce, RootHash: cp(root)}); err != nil {
		w.failed = "SetCurrentBlockHeader: " + err.Error()
		return
	}
	set := map[string]bool{}
	for k := range w.present {
		set[k] = true
	}
	w.roots = append(w.roots, cp(root))
	w.sets = append(w.sets, set)
	w.r.Count("api_blocks_committed", 1)
	w.log = append(w.log, fmt.Sprintf("block %d committed, root %x, %d accounts", w.nonce, root, len(set)))
}

func (w *apiWorld) rootIndex(root []byte) int {
	for i := len(w.roots) - 1; i >= 0; i-- {
		if bytes.Equal(w.roots[i], root) {
			return i
		}
	}
	return -1
}

func (w *apiWorld) detail(extra map[string]interface{}) map[string]interface{} {
	d := map[string]interface{}{"route": "nodeFacade (real trie, AccountsDB, blockchain holder, node address codec)", "history": w.log}
	for k, v := range extra {
		d[k] = v
	}
	return d
}

// arm makes the next GetTrie of the facade be followed by a block commit; returns a func telling whether it fired
func (w *apiWorld) arm(during bool) func() bool {
	if !during {
		return func() bool { return false }
	}
	fired := false
	w.hook.afterGetTrie = func() {
		fired = true
		w.log = append(w.log, "  (block processor commits the next block while the request is served, after AccountsDB.GetTrie returned)")
		w.commitBlock()
		w.r.Count("api_blocks_committed_during_a_request", 1)
	}
	return func() bool { w.hook.afterGetTrie = nil; return fired }
}

// verifyAPI is one VerifyProof call through the facade with its oracle. wantPresent: the address is present under root.
func (w *apiWorld) verifyAPI(root []byte, addr []byte, proof [][]byte, origin string, during bool) {
	r := w.r
	idx := w.rootIndex(root)
	if idx < 0 {
		return
	}
	isPresent := w.sets[idx][string(addr)]
	fired := w.arm(during)
	var ok bool
	var err error
	panicked, pv, stack := vk.Guard(func() { ok, err = w.fac.VerifyProof(hex.EncodeToString(root), w.enc(addr), cpProof(proof)) })
	f := fired()
	r.Eval(1)
	r.Count("api_verify_calls", 1)
	w.log = append(w.log, fmt.Sprintf("VerifyProof(root of block %d, %x, proof from %s) = %v, %v", idx+1, addr, origin, ok, err))
	d := func() map[string]interface{} {
		return w.detail(map[string]interface{}{"root": vk.Hex(root), "root_of_block": idx + 1, "address": vk.Hex(addr), "proof": hexProof(proof), "proof_origin": origin, "address_present_under_root": isPresent, "block_committed_during_call": f})
	}
	if panicked {
		dd := d()
		dd["panic"], dd["stack"] = fmt.Sprint(pv), stack
		r.Violation(w.c.Idx, "api-panic call=VerifyProof frame="+vk.TopFrame(stack), fmt.Sprintf("facade.VerifyProof panics: %v", pv), dd)
		return
	}
	r.Shape(fmt.Sprintf("api|verify|%s|present=%v|hook=%v|ok=%v", origin, isPresent, f, ok))
	switch {
	case origin == "own" && isPresent && !ok:
		r.Violation(w.c.Idx, "api-own-proof-rejected", fmt.Sprintf("API: proof obtained for present address %x and root %x (block %d) does not verify through VerifyProof (err %v)", addr, root, idx+1, err), d())
	case origin == "own" && isPresent:
		r.Count("api_own_proofs_accepted", 1)
	case !isPresent && ok:
		r.Violation(w.c.Idx, "api-absent-address-accepted", fmt.Sprintf("API: VerifyProof(root %x, address %x) == true although the address is absent under that root (proof from %s)", root, addr, origin), d())
	case !isPresent:
		r.Count("api_absent_rejected", 1)
	}
}

func (w *apiWorld) absentFor(idx int) []byte {
	rng := w.c.Rng
	// an address that exists only under later roots, a one-bit neighbour, or a random one
	var cands [][]byte
	for _, a := range w.pool {
		if !w.sets[idx][string(a)] {
			cands = append(cands, a)
		}
	}
	if len(cands) > 0 && rng.Bool() {
		return cp(cands[rng.Intn(len(cands))])
	}
	for tries := 0; tries < 8; tries++ {
		var z []byte
		if rng.Bool() {
			z = cp(w.pool[rng.Intn(len(w.pool))])
			z[rng.Intn(32)] ^= byte(1 << uint(rng.Intn(8)))
		} else {
			z = rng.Bytes(32)
		}
		known := false
		for _, a := range w.pool {
			if bytes.Equal(a, z) {
				known = true
			}
		}
		if !known {
			return z
		}
	}
	return nil
}

func (w *apiWorld) presentAddr(idx int) []byte {
	var ks [][]byte
	for _, a := range w.pool {
		if w.sets[idx][string(a)] {
			ks = append(ks, a)
		}
	}
	if len(ks) == 0 {
		return nil
	}
	return cp(ks[w.c.Rng.Intn(len(ks))])
}

// stepCurrent: GetProofCurrentRootHash with its pair oracle
func (w *apiWorld) stepCurrent(during bool, absent bool) {
	r, rng := w.r, w.c.Rng
	before := len(w.roots) - 1
	var addr []byte
	if absent {
		// absent under every root (never in the pool), so absent whatever header the call sees
		for tries := 0; tries < 20 && addr == nil; tries++ {
			if addr = w.absentFor(before); addr != nil && w.inPool(addr) {
				addr = nil
			}
		}
	} else {
		addr = w.presentAddr(before) // accounts are never removed: present under every later root too
	}
	if addr == nil {
		return
	}
	fired := w.arm(during)
	var proof [][]byte
	var root []byte
	var err error
	panicked, pv, stack := vk.Guard(func() { proof, root, err = w.fac.GetProofCurrentRootHash(w.enc(addr)) })
	f := fired()
	proof, root = cpProof(proof), cp(root)
	r.Eval(1)
	r.Count("api_getproof_current_calls", 1)
	w.log = append(w.log, fmt.Sprintf("GetProofCurrentRootHash(%x) (present %v) -> %d entries, root %x, err %v", addr, !absent, len(proof), root, err))
	d := func() map[string]interface{} {
		return w.detail(map[string]interface{}{"address": vk.Hex(addr), "address_present": !absent, "returned_root": vk.Hex(root), "returned_proof": hexProof(proof),
			"current_root_when_called": vk.Hex(w.roots[before]), "current_root_when_returned": vk.Hex(w.roots[len(w.roots)-1]), "block_committed_during_call": f})
	}
	if panicked {
		dd := d()
		dd["panic"], dd["stack"] = fmt.Sprint(pv), stack
		r.Violation(w.c.Idx, "api-panic call=GetProofCurrentRootHash frame="+vk.TopFrame(stack), fmt.Sprintf("facade.GetProofCurrentRootHash panics: %v", pv), dd)
		return
	}
	r.Shape(fmt.Sprintf("api|current|present=%v|hook=%v|err=%v|len=%d", !absent, f, err != nil, len(proof)))
	if absent {
		if err == nil && len(proof) > 0 {
			if idx := w.rootIndex(root); idx >= 0 {
				w.verifyAPI(root, addr, proof, "current-for-absent", false)
			}
		}
		return
	}
	if err != nil || len(proof) == 0 {
		r.Violation(w.c.Idx, "api-getproof-error call=GetProofCurrentRootHash", fmt.Sprintf("API: GetProofCurrentRootHash of present address %x: err %v, %d entries", addr, err, len(proof)), d())
		return
	}
	idx := w.rootIndex(root)
	if idx < before {
		r.Violation(w.c.Idx, "api-root-never-current", fmt.Sprintf("API: GetProofCurrentRootHash returned root %x, which was not the current root while the call ran", root), d())
		return
	}
	if f {
		r.Count("api_current_pairs_checked_with_block_committed_during_request", 1)
	}
	// THE pair oracle: what one call returned must verify
	w.verifyAPI(root, addr, proof, "own", rng.Chance(1, 4))
	// the same proof for an absent address
	if z := w.absentFor(idx); z != nil {
		w.verifyAPI(root, z, proof, "other-address", false)
	}
}

func (w *apiWorld) inPool(a []byte) bool {
	for _, p := range w.pool {
		if bytes.Equal(p, a) {
			return true
		}
	}
	return false
}

// stepHistoric: GetProof(root, address) for any committed root
func (w *apiWorld) stepHistoric(during bool) {
	r, rng := w.r, w.c.Rng
	idx := rng.Intn(len(w.roots))
	root := w.roots[idx]
	absent := rng.Chance(1, 4)
	var addr []byte
	if absent {
		addr = w.absentFor(idx)
	} else {
		addr = w.presentAddr(idx)
	}
	if addr == nil {
		return
	}
	fired := w.arm(during)
	var proof [][]byte
	var err error
	panicked, pv, stack := vk.Guard(func() { proof, err = w.fac.GetProof(hex.EncodeToString(root), w.enc(addr)) })
	f := fired()
	proof = cpProof(proof)
	r.Eval(1)
	r.Count("api_getproof_calls", 1)
	w.log = append(w.log, fmt.Sprintf("GetProof(root of block %d, %x) (present %v) -> %d entries, err %v", idx+1, addr, !absent, len(proof), err))
	d := func() map[string]interface{} {
		return w.detail(map[string]interface{}{"address": vk.Hex(addr), "address_present_under_root": !absent, "root": vk.Hex(root), "root_of_block": idx + 1, "returned_proof": hexProof(proof), "block_committed_during_call": f})
	}
	if panicked {
		dd := d()
		dd["panic"], dd["stack"] = fmt.Sprint(pv), stack
		r.Violation(w.c.Idx, "api-panic call=GetProof frame="+vk.TopFrame(stack), fmt.Sprintf("facade.GetProof panics: %v", pv), dd)
		return
	}
	r.Shape(fmt.Sprintf("api|historic|age=%d|present=%v|hook=%v|err=%v", minInt(len(w.roots)-1-idx, 3), !absent, f, err != nil))
	if absent {
		if err == nil && len(proof) > 0 {
			w.verifyAPI(root, addr, proof, "historic-for-absent", false)
		}
		return
	}
	if err != nil || len(proof) == 0 {
		r.Violation(w.c.Idx, "api-getproof-error call=GetProof", fmt.Sprintf("API: GetProof(root %x of block %d, present address %x): err %v, %d entries", root, idx+1, addr, err, len(proof)), d())
		return
	}
	w.verifyAPI(root, addr, proof, "own", rng.Chance(1, 4))
	if z := w.absentFor(idx); z != nil {
		w.verifyAPI(root, z, proof, "other-address", false)
	}
	// against another root under which the address does not exist yet
	for j := 0; j < idx; j++ {
		if !w.sets[j][string(addr)] {
			w.verifyAPI(w.roots[j], addr, proof, "later-root", false)
			break
		}
	}
}

func minInt(a, b int) int {
	if a < b {
		return a
	}
	return b
}

func apiCase(r *vk.Run, c *vk.Case) {
	rng := c.Rng
	level := triegen.Levels[rng.Intn(len(triegen.Levels))]
	env, err := triegen.NewEnv(level)
	if err != nil {
		r.Inconclusive("cannot build trie: " + err.Error())
		return
	}
	defer env.Close()
	adb, err := state.NewAccountsDB(env.Trie, triegen.Hasher, triegen.Marshalizer, factory.NewAccountCreator(), disabled.NewDisabledStoragePruningManager())
	if err != nil {
		r.Inconclusive("NewAccountsDB: " + err.Error())
		return
	}
	chain, err := blockchain.NewBlockChain(statusHandler.NewNilStatusHandler())
	if err != nil {
		r.Inconclusive("NewBlockChain: " + err.Error())
		return
	}
	conv, err := pubkeyConverter.NewBech32PubkeyConverter(32)
	if err != nil {
		r.Inconclusive("bech32 converter: " + err.Error())
		return
	}
	nd, err := node.NewNode(node.WithCoreComponents(&nodeMockFactory.CoreComponentsMock{AddrPubKeyConv: conv}))
	if err != nil {
		r.Inconclusive("NewNode: " + err.Error())
		return
	}
	hook := &hookedAccounts{AccountsAdapter: adb}
	nf, err := facade.NewNodeFacade(facade.ArgNodeFacade{
		Node:                 nd,
		ApiResolver:          &facadeMock.ApiResolverStub{},
		TxSimulatorProcessor: &facadeMock.TxExecutionSimulatorStub{},
		WsAntifloodConfig:    config.WebServerAntifloodConfig{SimultaneousRequests: 1, SameSourceRequests: 1, SameSourceResetIntervalInSec: 1},
		FacadeConfig:         config.FacadeConfig{RestApiInterface: "off"},
		ApiRoutesConfig:      config.ApiRoutesConfig{APIPackages: map[string]config.APIPackageConfig{"proof": {Routes: []config.RouteConfig{{Name: "/address/:address", Open: true}}}}},
		AccountsState:        hook,
		PeerState:            &testscommon.AccountsStub{},
		Blockchain:           chain,
	})
	if err != nil {
		r.Inconclusive("NewNodeFacade: " + err.Error())
		return
	}
	w := &apiWorld{r: r, c: c, adb: adb, hook: hook, chain: chain, fac: nf, enc: conv.Encode,
		pool: triegen.Pool32(rng, rng.Range(3, 12)), present: map[string]bool{}}
	w.commitBlock()
	steps := rng.Range(8, 16)
	for s := 0; s < steps && w.failed == ""; s++ {
		during := rng.Chance(1, 2)
		switch x := rng.Intn(10); {
		case x < 5:
			w.stepCurrent(during, false)
		case x < 6:
			w.stepCurrent(during, true)
		case x < 9:
			w.stepHistoric(during)
		default:
			w.commitBlock() // the chain advances between two requests
		}
	}
	if w.failed != "" {
		r.Inconclusive("API fixture: " + w.failed)
		return
	}
	r.Count("api_cases", 1)
	r.Max("api_max_blocks_in_a_case", int64(len(w.roots)))
}
