// C04 — Merkle proofs are sound, complete and proof verification never crashes.
// Monitor shape: reference model + hostile inputs. Real tries (structured keys, dirty / committed / recreated)
// and, for 32-byte addresses, the path the REST API uses (AccountsDB.GetTrie(root).VerifyProof).
//
//	completeness: GetProof(k) of every present key succeeds and VerifyProof(k, proof) is true;
//	soundness:    VerifyProof(key, proof) == true  =>  key is present in the model of that root;
//	crash-freedom: no VerifyProof call may panic, whatever key and proof bytes are supplied.
//
// Witness classes (violation keys):
//
//	"absent-key-accepted class=<relation of the accepted key to the key the proof was generated for>[ proof=<kind>]"
//	"panic class=<relation>[ proof=<kind>][ frame=<top frame>]"   ("panic class=short-key" is the slice-bounds crash in
//	                                                                extensionNode.getNextHashAndKey for keys shorter than the extension)
//	"own-proof-rejected[ verifier=same-content-instance|changed-and-restored|same-content-instance+changed-and-restored]" (verifiers.go),
//	"getproof-error", "panic-getproof"
//	API phase (api.go): "api-own-proof-rejected", "api-absent-address-accepted", "api-root-never-current",
//	"api-getproof-error call=<getter>", "api-panic call=<call> frame=<top frame>"
package main

import (
	"bytes"
	"fmt"
	"math/big"
	"sort"
	"strings"

	logger "github.com/ElrondNetwork/elrond-go-logger"
	"github.com/ElrondNetwork/elrond-go/data"
	"github.com/ElrondNetwork/elrond-go/data/state"
	"github.com/ElrondNetwork/elrond-go/data/state/factory"
	"github.com/ElrondNetwork/elrond-go/data/state/storagePruningManager/disabled"

	"verif/internal/triegen"
	"verif/internal/vk"
)

func cp(b []byte) []byte { return append([]byte{}, b...) }

func cpProof(p [][]byte) [][]byte {
	o := make([][]byte, len(p))
	for i := range p {
		if p[i] != nil {
			o[i] = cp(p[i])
		}
	}
	return o
}

func hexProof(p [][]byte) []string {
	o := make([]string, len(p))
	for i := range p {
		if p[i] == nil {
			o[i] = "<nil>"
		} else {
			o[i] = vk.Hex(p[i])
		}
	}
	return o
}

// relation of a tested key to the key the proof was generated for, in terms of the node sequence of the proof
func relation(keys [][]byte, base, tested []byte) string {
	if bytes.Equal(base, tested) {
		return "same-key"
	}
	pb, pt := triegen.HexPath(base), triegen.HexPath(tested)
	if len(pt) < len(pb) {
		return "short-key"
	}
	if len(pt) > len(pb) {
		return "long-key"
	}
	segs := triegen.Segments(keys, base)
	if segs == nil {
		return "same-length-key"
	}
	kinds := map[string]bool{}
	for i := range pb {
		if pb[i] == pt[i] {
			continue
		}
		for _, s := range segs {
			if i >= s.Start && i < s.Start+s.Len {
				switch s.Kind {
				case 'E':
					kinds["extension-segment"] = true
				case 'B':
					kinds["branch-position"] = true
				case 'L':
					kinds["leaf-remainder"] = true
				}
			}
		}
	}
	var ks []string
	for k := range kinds {
		ks = append(ks, k)
	}
	sort.Strings(ks)
	return strings.Join(ks, "+")
}

func kindsString(segs []triegen.Seg) string {
	var b strings.Builder
	for _, s := range segs {
		b.WriteByte(s.Kind)
	}
	s := b.String()
	if len(s) > 8 {
		s = s[:8] + "+"
	}
	return s
}

// proof kinds whose hash chain is that of a genuine proof: acceptance of an absent key is then explained by the key alone
var benignProof = map[string]bool{"genuine": true, "genuine+garbage": true, "genuine-of-other": true, "concat": true, "duplicated-entries": true}

type battery struct {
	r       *vk.Run
	c       *vk.Case
	route   string
	gen     data.Trie // the trie proofs are generated from
	ver     data.Trie // the trie that verifies
	model   map[string]bool
	keys    [][]byte // present keys (sorted)
	only32  bool
	setup   map[string]interface{}
	perTrie int
	// verifier-side variety (verifiers.go): verKind "" = the verifier as built by the route; otherwise the witness-class suffix
	verKind string
	root    []byte       // root hash of gen when the proofs are generated (nil: not tracked)
	perturb func() error // run between GetProof and the verification of the own proof: changes ver and restores its content
}

func (b *battery) verify(base, tested []byte, proof [][]byte, keyCat, proofKind string, segKinds string) {
	r := b.r
	key := cp(tested)
	p := cpProof(proof)
	var ok bool
	var verr error
	panicked, pv, stack := vk.Guard(func() { ok, verr = b.ver.VerifyProof(key, p) })
	r.Eval(1)
	r.Count("verify_calls", 1)
	r.Count("calls key="+keyCat, 1)
	r.Count("calls proof="+proofKind, 1)
	r.Shape(b.route + "|" + keyCat + "|" + proofKind + "|" + segKinds)
	detail := func() map[string]interface{} {
		var present []string
		for _, k := range b.keys {
			present = append(present, vk.Hex(k))
		}
		return map[string]interface{}{
			"route": b.route, "setup": b.setup, "present_keys": present, "proof_generated_for": vk.Hex(base),
			"tested_key": vk.Hex(tested), "key_category": keyCat, "proof_kind": proofKind, "proof": hexProof(proof),
			"node_kinds_on_path": segKinds,
		}
	}
	rel := relation(b.keys, base, tested)
	suffix := ""
	if !benignProof[proofKind] {
		suffix = " proof=" + proofKind
	}
	if panicked {
		r.Count("panics", 1)
		frame := vk.TopFrame(stack)
		k := "panic class=" + rel + suffix
		if !(rel == "short-key" && strings.Contains(frame, "extensionNode).getNextHashAndKey")) {
			k += " frame=" + frame
		}
		d := detail()
		d["panic"] = fmt.Sprint(pv)
		d["stack"] = stack
		r.Count("witness ["+k+"] route="+b.route, 1)
		r.Violation(b.c.Idx, k, fmt.Sprintf("VerifyProof(key %x, %s proof generated for %x) panics: %v (present keys: %d, route %s)", tested, proofKind, base, pv, len(b.keys), b.route), d)
		return
	}
	_ = verr
	present := b.model[string(tested)]
	if ok {
		r.Count("accepted", 1)
	} else {
		r.Count("rejected", 1)
	}
	if keyCat == "own" && proofKind == "genuine" {
		if !ok {
			key := "own-proof-rejected"
			if b.verKind != "" {
				// the verifier is another instance / was changed and restored: the claim needs its root to be the root the proof was made for
				if vr, rerr := b.ver.RootHash(); rerr != nil || !bytes.Equal(vr, b.root) {
					r.Count("verifier_root_differs_from_prover_root", 1)
					return
				}
				key += " verifier=" + b.verKind
			}
			r.Count("witness ["+key+"] route="+b.route, 1)
			r.Violation(b.c.Idx, key, fmt.Sprintf("key %x is present, GetProof succeeded, VerifyProof returned false (err %v), route %s, verifier %q", tested, verr, b.route, b.verKind), detail())
		} else {
			r.Count("own_proofs_accepted", 1)
		}
		return
	}
	if ok && !present {
		r.Count("absent_accepted", 1)
		r.Count("witness [absent-key-accepted class="+rel+suffix+"] route="+b.route, 1)
		r.Violation(b.c.Idx, "absent-key-accepted class="+rel+suffix,
			fmt.Sprintf("VerifyProof(key %x, %s proof generated for %x) == true but the key is absent (differs from the proof's key: %s; node kinds on the path %s; route %s)", tested, proofKind, base, rel, segKinds, b.route), detail())
	}
}

func (b *battery) run() {
	r, rng := b.r, b.c.Rng
	if len(b.keys) == 0 {
		return
	}
	order := rng.Perm(len(b.keys))
	if len(order) > b.perTrie {
		order = order[:b.perTrie]
	}
	for _, ki := range order {
		k := b.keys[ki]
		var proof [][]byte
		var perr error
		pp, pv, st := vk.Guard(func() { proof, perr = b.gen.GetProof(cp(k)) })
		r.Eval(1)
		r.Count("getproof_present", 1)
		if pp {
			r.Violation(b.c.Idx, "panic-getproof frame="+vk.TopFrame(st), fmt.Sprintf("GetProof(%x) of a present key panics: %v", k, pv), map[string]interface{}{"setup": b.setup, "key": vk.Hex(k), "stack": st})
			continue
		}
		if perr != nil || len(proof) == 0 {
			r.Violation(b.c.Idx, "getproof-error", fmt.Sprintf("GetProof(%x) of a present key: err %v, %d entries (route %s)", k, perr, len(proof), b.route), map[string]interface{}{"setup": b.setup, "key": vk.Hex(k)})
			continue
		}
		proof = cpProof(proof)
		r.Max("max_proof_len", int64(len(proof)))
		segs := triegen.Segments(b.keys, k)
		sk := kindsString(segs)
		if len(segs) != len(proof) {
			r.Count("proof_len_differs_from_canonical_path", 1)
		}
		path := triegen.HexPath(k)

		// --- completeness
		if b.perturb != nil {
			if perr2 := b.perturb(); perr2 != nil {
				r.Inconclusive("changing and restoring the verifier trie: " + perr2.Error())
				return
			}
		}
		b.verify(k, k, proof, "own", "genuine", sk)

		// --- adversarial keys with the genuine proof
		// one nibble changed inside each node of the path
		for _, s := range segs {
			n := s.Len
			if s.Kind == 'L' {
				n-- // never the terminator
			}
			if s.Kind == 'B' && path[s.Start] == 16 {
				continue
			}
			if n <= 0 {
				continue
			}
			tries := 1
			if s.Kind == 'E' && n > 1 {
				tries = 2
			}
			for t := 0; t < tries; t++ {
				p2 := cp(path)
				pos := s.Start + rng.Intn(n)
				p2[pos] ^= byte(1 + rng.Intn(15))
				if tk, ok := triegen.KeyFromHexPath(p2); ok {
					cat := map[byte]string{'E': "nibble-in-extension", 'B': "nibble-at-branch", 'L': "nibble-in-leaf"}[s.Kind]
					b.verify(k, tk, proof, cat, "genuine", sk)
				}
			}
		}
		if !b.only32 {
			if len(k) > 0 {
				b.verify(k, k[rng.Range(1, len(k)):], proof, "proper-suffix(shorter)", "genuine", sk)
				b.verify(k, k[:len(k)-1], proof, "proper-prefix(shorter)", "genuine", sk)
				if len(k) > 1 {
					b.verify(k, k[1:], proof, "proper-suffix(shorter)", "genuine", sk)
				}
			}
			b.verify(k, []byte{}, proof, "empty-key", "genuine", sk)
			b.verify(k, nil, proof, "empty-key", "genuine", sk)
			b.verify(k, append(rng.Bytes(rng.Range(1, 3)), k...), proof, "longer(prepend)", "genuine", sk)
			b.verify(k, append(cp(k), rng.Bytes(1)...), proof, "longer(append)", "genuine", sk)
			b.verify(k, rng.Bytes(rng.Range(0, 40)), proof, "random-key", "genuine", sk)
			// a key that ends exactly inside / at the end of an extension: keep the first m nibbles of the path
			for _, s := range segs {
				if s.Kind != 'E' {
					continue
				}
				for _, cut := range []int{s.Start + s.Len, s.Start + s.Len - 1, s.Start + 1} {
					if cut > 0 && cut%2 == 0 && cut < len(path)-1 {
						p2 := append(cp(path[:cut]), 16)
						if tk, ok := triegen.KeyFromHexPath(p2); ok {
							b.verify(k, tk, proof, "ends-in-extension(shorter)", "genuine", sk)
						}
					}
				}
			}
		} else {
			b.verify(k, rng.Bytes(32), proof, "random-key", "genuine", sk)
			k2 := cp(k)
			k2[rng.Intn(32)] ^= byte(1 << uint(rng.Intn(8)))
			b.verify(k, k2, proof, "one-bit-change", "genuine", sk)
			k3 := cp(k)
			k3[31] ^= byte(1 << uint(rng.Intn(8)))
			b.verify(k, k3, proof, "one-bit-change", "genuine", sk)
		}
		// another present key with this proof, and an absent neighbour of it
		o := b.keys[rng.Intn(len(b.keys))]
		if !bytes.Equal(o, k) {
			b.verify(k, o, proof, "other-present-key", "genuine", sk)
			if op, oerr := b.gen.GetProof(cp(o)); oerr == nil && len(op) > 0 {
				op = cpProof(op)
				b.verify(o, k, op, "other-present-key", "genuine-of-other", sk)
				// chains glued together
				b.verify(k, k, append(cpProof(proof), op...), "own", "concat", sk)
				b.verify(o, k, append(cpProof(op), proof...), "own", "concat", sk)
				if len(k) > 0 {
					k2 := cp(k)
					k2[len(k2)-1] ^= byte(1 + rng.Intn(255))
					b.verify(o, k2, append(cpProof(op), proof...), "last-byte-change", "concat", sk)
				}
			}
		}

		// --- hostile proofs, verified for the present key and for an absent neighbour of it
		absent := cp(k)
		if len(absent) > 0 {
			for tries := 0; tries < 8; tries++ {
				absent = cp(k)
				absent[rng.Intn(len(absent))] ^= byte(1 + rng.Intn(255))
				if !b.model[string(absent)] {
					break
				}
			}
		} else {
			absent = rng.Bytes(1)
		}
		targets := []struct {
			key []byte
			cat string
		}{{k, "own"}, {absent, "one-byte-change"}}
		mangled := map[string][][]byte{}
		mangled["empty"] = [][]byte{}
		mangled["nil-proof"] = nil
		if len(proof) > 1 {
			mangled["prefix"] = cpProof(proof[:rng.Range(1, len(proof)-1)])
			mangled["suffix"] = cpProof(proof[rng.Range(1, len(proof)-1):])
			rv := cpProof(proof)
			for i, j := 0, len(rv)-1; i < j; i, j = i+1, j-1 {
				rv[i], rv[j] = rv[j], rv[i]
			}
			mangled["reordered"] = rv
		}
		{
			p2 := cpProof(proof)
			x := rng.Intn(len(p2))
			p2[x][rng.Intn(len(p2[x]))] ^= byte(1 << uint(rng.Intn(8)))
			mangled["bitflip"] = p2
		}
		{
			p2 := cpProof(proof)
			x := rng.Intn(len(p2))
			p2[x] = p2[x][:rng.Intn(len(p2[x]))]
			mangled["truncated-entry"] = p2
		}
		{
			p2 := cpProof(proof)
			x := rng.Intn(len(p2))
			p2[x][len(p2[x])-1] = byte(rng.Intn(5))
			if !bytes.Equal(p2[x], proof[x]) {
				mangled["typebyte"] = p2
			}
		}
		{
			p2 := cpProof(proof)
			p2[rng.Intn(len(p2))] = nil
			mangled["nil-entry"] = p2
		}
		{
			p2 := cpProof(proof)
			p2[rng.Intn(len(p2))] = []byte{}
			mangled["empty-entry"] = p2
		}
		{
			var p2 [][]byte
			for i := 0; i < rng.Range(1, 4); i++ {
				e := rng.Bytes(rng.Range(1, 80))
				if rng.Bool() {
					e[len(e)-1] = byte(rng.Intn(3))
				}
				p2 = append(p2, e)
			}
			mangled["random"] = p2
		}
		{
			p2 := cpProof(proof)
			g := rng.Bytes(rng.Range(1, 60))
			g[len(g)-1] = byte(rng.Intn(3))
			mangled["genuine+garbage"] = append(p2, g)
		}
		{
			var p2 [][]byte
			for _, e := range proof {
				p2 = append(p2, cp(e), cp(e))
			}
			mangled["duplicated-entries"] = p2
		}
		{
			// genuine head, structured-malformed tail: bodies of every node type that decode to degenerate nodes
			tails := [][]byte{{0x00}, {0x01}, {0x02}, {0x0a, 0x00, 0x02}, {0x0a, 0x01, 0x05, 0x00}, {0x12, 0x00, 0x00}, {0x0a, 0x00, 0x01}, {0xff, 0xff, 0xff, 0xff, 0x02}}
			p2 := cpProof(proof[:rng.Range(0, len(proof)-1)])
			mangled["malformed-node"] = append(p2, cp(tails[rng.Intn(len(tails))]))
		}
		names := make([]string, 0, len(mangled))
		for n := range mangled {
			names = append(names, n)
		}
		sort.Strings(names)
		for _, n := range names {
			for _, t := range targets {
				b.verify(k, t.key, mangled[n], t.cat, n, sk)
			}
		}
	}
}

func sortKeys(m map[string]bool) [][]byte {
	var ks [][]byte
	for k := range m {
		ks = append(ks, []byte(k))
	}
	sort.Slice(ks, func(i, j int) bool { return bytes.Compare(ks[i], ks[j]) < 0 })
	return ks
}

func main() {
	_ = logger.SetLogLevel("*:NONE")
	r := vk.Start("C04")
	r.Rule("each case is one trie: case 0 is the two-key trie {xdog,ydog}; 4 of 5 cases build a real trie from 1-20 structured keys (triegen.Pool; some keys deleted again), left dirty, " +
		"committed, or committed and recreated from the root (verifier = same trie or a recreated one, random maxTrieLevelInMemory); 1 of 5 cases goes through a real AccountsDB " +
		"(user accounts at 3-16 structured 32-byte addresses, Commit, AccountsDB.GetTrie(root).GetProof/VerifyProof as the REST facade does). For up to 8 present keys per trie: own proof; " +
		"absent keys with the genuine proof (one nibble changed inside every extension / branch slot / leaf remainder on the path, proper suffixes and prefixes, keys ending inside an extension, " +
		"empty key, longer keys, random keys, other present keys, proofs of other keys, glued chains); hostile proofs (prefix, suffix, reordered, bit flip, truncated entry, type byte, nil/empty entry, " +
		"random bytes, garbage appended, duplicated entries, structured malformed node bodies, empty/nil proof) for the present key and an absent neighbour. " +
		"Verifier-side variety (6 of 8 tries, verifiers.go): the verifying trie is the one built by the route, or a second instance filled with the same pairs in another order on which no " +
		"RootHash/Commit/GetProof ran before VerifyProof (its root is checked on a third, identically filled trie), optionally hashed or committed, and in half of the tries changed and changed back " +
		"between GetProof and VerifyProof (value overwritten+rewritten, absent key inserted+deleted, present key deleted+re-inserted). " +
		"API phase (api.go, extra cases): real nodeFacade over real AccountsDB, blockchain holder and node address codec; blocks (account changes + Commit + SetCurrentBlockHeader) are committed between " +
		"requests and, through a decorator of AccountsDB.GetTrie, while a request is served; GetProofCurrentRootHash / GetProof(current or historical root) / VerifyProof for present addresses, absent " +
		"addresses and addresses created by later blocks; the (proof, root hash) pair returned by one call must verify. " +
		"Every verification is one evaluation; shape signature = route | key category | proof kind | node kinds on the proof path (E extension, B branch, L leaf); api|call|origin|presence|block committed during the call|result.")
	r.Assume("the model of a root is the set of keys written to the trie (validated separately by C01)",
		"node kinds on the path are computed from the key set (canonical trie), used only to build adversarial keys and to classify witnesses",
		"blake2b collision resistance: a forged node cannot hash to a wanted hash")
	r.MinShapes(100)

	nCases := r.N(300, 8000)
	nAPI := r.N(60, 1500)
	r.Parallel(nCases+nAPI, func(c *vk.Case) {
		if c.Idx >= nCases {
			apiCase(r, c) // api.go
			return
		}
		rng := c.Rng
		level := triegen.Levels[rng.Intn(len(triegen.Levels))]
		env, err := triegen.NewEnv(level)
		if err != nil {
			r.Inconclusive("cannot build trie: " + err.Error())
			return
		}
		defer env.Close()

		if c.Idx%5 == 4 {
			// ---- the REST path: AccountsDB.GetTrie(root)
			adb, aerr := state.NewAccountsDB(env.Trie, triegen.Hasher, triegen.Marshalizer, factory.NewAccountCreator(), disabled.NewDisabledStoragePruningManager())
			if aerr != nil {
				r.Inconclusive("NewAccountsDB: " + aerr.Error())
				return
			}
			addrs := triegen.Pool32(rng, rng.Range(3, 16))
			model := map[string]bool{}
			for i, a := range addrs {
				acc, lerr := adb.LoadAccount(cp(a))
				if lerr != nil {
					r.Inconclusive("LoadAccount: " + lerr.Error())
					return
				}
				ua, okc := acc.(state.UserAccountHandler)
				if !okc {
					r.Inconclusive("account type")
					return
				}
				_ = ua.AddToBalance(big.NewInt(int64(1 + i)))
				ua.IncreaseNonce(uint64(rng.Intn(5)))
				if serr := adb.SaveAccount(ua); serr != nil {
					r.Inconclusive("SaveAccount: " + serr.Error())
					return
				}
				model[string(a)] = true
			}
			root, cerr := adb.Commit()
			if cerr != nil {
				r.Inconclusive("AccountsDB.Commit: " + cerr.Error())
				return
			}
			gen, gerr := adb.GetTrie(cp(root))
			ver, verr := adb.GetTrie(cp(root))
			if gerr != nil || verr != nil {
				r.Violation(c.Idx, "gettrie-error", fmt.Sprintf("AccountsDB.GetTrie(%x) after Commit: %v %v", root, gerr, verr), nil)
				return
			}
			r.Count("tries_accountsdb", 1)
			b := &battery{r: r, c: c, route: "accountsdb", gen: gen, ver: ver, model: model, keys: sortKeys(model), only32: true, perTrie: 8,
				setup: map[string]interface{}{"route": "AccountsDB.GetTrie(root)", "level": level, "root": vk.Hex(root), "accounts": len(addrs)}}
			vals := map[string][]byte{}
			for _, a := range b.keys {
				v, verr2 := gen.Get(cp(a))
				if verr2 != nil || len(v) == 0 {
					r.Inconclusive(fmt.Sprintf("AccountsDB.GetTrie(%x).Get(%x) of a committed account: %d bytes, err %v", root, a, len(v), verr2))
					return
				}
				vals[string(a)] = cp(v)
			}
			if derr := dressVerifier(r, rng, env, b, vals); derr != nil {
				r.Inconclusive(derr.Error())
				return
			}
			b.run()
			return
		}

		// ---- plain trie
		var pool [][]byte
		if c.Idx == 0 {
			pool = [][]byte{[]byte("xdog"), []byte("ydog")}
		} else {
			pool = triegen.Pool(rng, rng.Range(1, 20))
		}
		tr := env.Trie
		model := map[string]bool{}
		vals := map[string][]byte{}
		for _, k := range pool {
			v := triegen.Value(rng)
			if uerr := tr.Update(cp(k), cp(v)); uerr != nil {
				r.Inconclusive("Update: " + uerr.Error())
				return
			}
			model[string(k)] = true
			vals[string(k)] = v
		}
		if c.Idx != 0 && len(pool) > 3 {
			for i := 0; i < rng.Intn(len(pool)/3+1); i++ {
				k := pool[rng.Intn(len(pool))]
				if derr := tr.Delete(cp(k)); derr != nil {
					r.Inconclusive("Delete: " + derr.Error())
					return
				}
				delete(model, string(k))
				delete(vals, string(k))
			}
		}
		mode := rng.Intn(4)
		setup := map[string]interface{}{"level": level, "written_keys": len(pool)}
		gen, ver := tr, tr
		switch mode {
		case 0:
			setup["state"] = "dirty (never committed)"
		case 1:
			setup["state"] = "committed"
			if cerr := tr.Commit(); cerr != nil {
				r.Inconclusive("Commit: " + cerr.Error())
				return
			}
		default:
			if cerr := tr.Commit(); cerr != nil {
				r.Inconclusive("Commit: " + cerr.Error())
				return
			}
			root, _ := tr.RootHash()
			lv2 := triegen.Levels[rng.Intn(len(triegen.Levels))]
			t2, _ := env.NewTrie(lv2)
			rt, rerr := t2.Recreate(cp(root))
			if rerr != nil || rt == nil || rt.IsInterfaceNil() {
				r.Inconclusive(fmt.Sprintf("Recreate: %v", rerr))
				return
			}
			if mode == 2 {
				setup["state"] = fmt.Sprintf("committed; proofs from the original, verified by a trie recreated with level %d", lv2)
				ver = rt
			} else {
				setup["state"] = fmt.Sprintf("committed; proofs from and verified by a trie recreated with level %d", lv2)
				gen, ver = rt, rt
			}
		}
		r.Count("tries_plain", 1)
		keys := sortKeys(model)
		if len(keys) <= 1 {
			r.Trivial()
		}
		b := &battery{r: r, c: c, route: "trie", gen: gen, ver: ver, model: model, keys: keys, perTrie: 8, setup: setup}
		if derr := dressVerifier(r, rng, env, b, vals); derr != nil {
			r.Inconclusive(derr.Error())
			return
		}
		b.run()
		if r.NeedSample() && c.Idx < 40 && len(keys) >= 2 {
			var ks []string
			for _, k := range keys {
				ks = append(ks, vk.Hex(k))
			}
			if len(ks) > 6 {
				ks = ks[:6]
			}
			r.Sample(map[string]interface{}{"case": c.Idx, "setup": setup, "present_keys_first6": ks, "node_kinds_first_key": kindsString(triegen.Segments(keys, keys[0]))})
		}
	})
	if r.Counter("own_proofs_accepted") == 0 && r.Violations() == 0 {
		r.Inconclusive("no own proof was verified")
	}
	if r.Violations() == 0 && (r.Counter("api_current_pairs_checked_with_block_committed_during_request") == 0 || r.Counter("api_own_proofs_accepted") == 0) {
		r.Inconclusive("the API phase never checked a (proof, root hash) pair returned while a block was being committed")
	}
	if r.Violations() == 0 && (r.Counter("verifier twin-never-hashed") == 0 || r.Counter("verifier_change overwrite+rewrite") == 0) {
		r.Inconclusive("no proof was verified on a never-hashed second instance / on a changed-and-restored trie")
	}
	r.Finish()
}
