// Verifier-side variety for C04. "The proof returned for a present key verifies against the trie's root" does not
// say which trie instance holds that root, nor whether that instance has computed its root hash lately. The routes in
// main.go verify on the generating instance or on a trie recreated from the root; this file adds the other verifiers
// a proof can meet:
//   - "same-content-instance": another trie, filled with the same pairs in another order (possibly with an extra key
//     written and deleted again), on which nobody ever called RootHash / Commit / GetProof before the verification;
//     optionally hashed or committed first;
//   - "changed-and-restored": the verifier (generating instance, recreated trie or the twin), optionally hashed or
//     committed, then changed and changed back between GetProof and VerifyProof: a value overwritten and rewritten,
//     an absent key inserted and deleted, a present key deleted and re-inserted. Its content, hence its root, is the
//     one the proof was made for, but its root node is dirty when VerifyProof starts.
//
// The oracle is unchanged (own proof accepted, absent keys rejected, no crash); a rejected own proof is only reported
// after the verifier's RootHash() has been confirmed to equal the prover's root at proof time.
package main

import (
	"bytes"
	"fmt"

	"github.com/ElrondNetwork/elrond-go/data"

	"verif/internal/triegen"
	"verif/internal/vk"
)

// fillTwin writes the pairs in the given order into a new trie over env's storage; extra (may be nil) is written
// first and deleted at the end. Nothing that computes a hash is called.
func fillTwin(env *triegen.Env, level uint, order [][]byte, vals map[string][]byte, extra []byte) (data.Trie, error) {
	tw, err := env.NewTrie(level)
	if err != nil {
		return nil, err
	}
	if extra != nil {
		if err = tw.Update(cp(extra), []byte{0x5a, 0x5a}); err != nil {
			return nil, err
		}
	}
	for _, k := range order {
		if err = tw.Update(cp(k), cp(vals[string(k)])); err != nil {
			return nil, err
		}
	}
	if extra != nil {
		if err = tw.Delete(cp(extra)); err != nil {
			return nil, err
		}
	}
	return tw, nil
}

func absentKey(rng *vk.Rand, keys [][]byte, model map[string]bool, only32 bool) []byte {
	for tries := 0; tries < 16; tries++ {
		var z []byte
		switch {
		case only32 && rng.Bool(), len(keys) == 0:
			z = rng.Bytes(32)
		case only32:
			z = cp(keys[rng.Intn(len(keys))])
			z[rng.Intn(len(z))] ^= byte(1 + rng.Intn(255))
		default:
			switch rng.Intn(3) {
			case 0:
				z = rng.Bytes(rng.Range(1, 33))
			case 1:
				z = cp(keys[rng.Intn(len(keys))])
				if len(z) == 0 {
					z = rng.Bytes(1)
				} else {
					z[rng.Intn(len(z))] ^= byte(1 + rng.Intn(255))
				}
			default:
				z = append(rng.Bytes(1), keys[rng.Intn(len(keys))]...)
			}
		}
		if !model[string(z)] {
			return z
		}
	}
	return nil
}

// changeAndRestore returns the perturbation run between GetProof and VerifyProof
func changeAndRestore(r *vk.Run, rng *vk.Rand, ver func() data.Trie, keys [][]byte, model map[string]bool, only32 bool) func() error {
	return func() error {
		tr := ver()
		kind := rng.Intn(3)
		if kind == 1 {
			z := absentKey(rng, keys, model, only32)
			if z != nil {
				if err := tr.Update(cp(z), triegen.Value(rng)); err != nil {
					return fmt.Errorf("Update(absent): %w", err)
				}
				if err := tr.Delete(cp(z)); err != nil {
					return fmt.Errorf("Delete(just inserted): %w", err)
				}
				r.Count("verifier_change insert-absent+delete", 1)
				return nil
			}
			kind = 0
		}
		x := keys[rng.Intn(len(keys))]
		orig, err := tr.Get(cp(x))
		if err != nil || len(orig) == 0 {
			return fmt.Errorf("Get(present key %x) on the verifier: %d bytes, err %v", x, len(orig), err)
		}
		orig = cp(orig)
		if kind == 0 {
			other := triegen.Value(rng)
			if bytes.Equal(other, orig) {
				other = append(other, 1)
			}
			if err = tr.Update(cp(x), other); err != nil {
				return fmt.Errorf("Update(other value): %w", err)
			}
			r.Count("verifier_change overwrite+rewrite", 1)
		} else {
			if err = tr.Delete(cp(x)); err != nil {
				return fmt.Errorf("Delete(present): %w", err)
			}
			r.Count("verifier_change delete+reinsert", 1)
		}
		if err = tr.Update(cp(x), cp(orig)); err != nil {
			return fmt.Errorf("Update(original value): %w", err)
		}
		return nil
	}
}

// dressVerifier chooses the verifier-side variety of one battery (b.gen, b.ver, b.keys, b.model are set).
// vals holds the value of every present key. Returns an error only for fixture failures.
func dressVerifier(r *vk.Run, rng *vk.Rand, env *triegen.Env, b *battery, vals map[string][]byte) error {
	if len(b.keys) == 0 {
		return nil
	}
	root, err := b.gen.RootHash()
	if err != nil {
		return fmt.Errorf("RootHash of the generating trie: %w", err)
	}
	b.root = cp(root)
	choice := rng.Intn(8)
	if choice < 2 {
		r.Count("verifier as-built", 1)
		return nil
	}
	state := "as-built"
	if choice < 5 {
		// a second instance with the same content, never hashed
		order := make([][]byte, len(b.keys))
		for i, j := range rng.Perm(len(b.keys)) {
			order[i] = b.keys[j]
		}
		var extra []byte
		if rng.Bool() {
			extra = absentKey(rng, b.keys, b.model, b.only32)
		}
		level := triegen.Levels[rng.Intn(len(triegen.Levels))]
		ref, ferr := fillTwin(env, level, order, vals, extra)
		if ferr != nil {
			return fmt.Errorf("filling the reference twin: %w", ferr)
		}
		refRoot, rerr := ref.RootHash()
		if rerr != nil {
			return fmt.Errorf("RootHash of the reference twin: %w", rerr)
		}
		if !bytes.Equal(refRoot, b.root) {
			// equal content / different root is C02's subject, not a proof matter: keep the verifier as built
			r.Count("twin_root_differs_from_prover_root", 1)
			return nil
		}
		tw, ferr := fillTwin(env, level, order, vals, extra)
		if ferr != nil {
			return fmt.Errorf("filling the twin: %w", ferr)
		}
		b.ver = tw
		b.verKind = "same-content-instance"
		state = "twin-never-hashed"
		b.setup["verifier"] = fmt.Sprintf("second trie (level %d) filled with the same pairs in another order (extra key written+deleted: %v); no RootHash/Commit/GetProof on it before VerifyProof", level, extra != nil)
		if choice == 2 {
			r.Count("verifier "+state, 1)
			return nil
		}
	}
	// hash state before the change: untouched / hashed / committed
	switch rng.Intn(3) {
	case 1:
		if _, err = b.ver.RootHash(); err != nil {
			return fmt.Errorf("RootHash of the verifier: %w", err)
		}
		state += "+RootHash"
	case 2:
		if err = b.ver.Commit(); err != nil {
			return fmt.Errorf("Commit of the verifier: %w", err)
		}
		state += "+Commit"
	}
	if choice == 3 {
		// twin, hashed or committed, not changed afterwards
		b.setup["verifier_state"] = state
		r.Count("verifier "+state, 1)
		return nil
	}
	if b.verKind == "" {
		b.verKind = "changed-and-restored"
	} else {
		b.verKind += "+changed-and-restored"
	}
	state += "+changed-and-restored"
	b.setup["verifier_state"] = state + " (between GetProof and VerifyProof: value overwritten and rewritten / absent key inserted and deleted / present key deleted and re-inserted)"
	r.Count("verifier "+state, 1)
	b.perturb = changeAndRestore(r, rng, func() data.Trie { return b.ver }, b.keys, b.model, b.only32)
	return nil
}
