// C10 — state snapshots and checkpoints are complete, even while commits, rollbacks and prune requests continue.
// Monitor shape: invariant under concurrency. Real AccountsDB / trieStorageManager / pruning manager driven
// through the real schedule (SnapshotState before the final block's updateStateStorage; checkpoints fired by
// updateStateStorage itself every CheckpointRoundsModulus-th final block). A mutator goroutine keeps committing,
// finalizing and rolling back while the snapshot goroutines traverse; a decorator on the main DB holds (logical
// tokens) or slows the traversal reads to widen the window. RACE marker: race reports are evidence only.
package main

import (
	"fmt"
	"os"
	"path/filepath"
	"sync/atomic"
	"time"

	logger "github.com/ElrondNetwork/elrond-go-logger"
	"github.com/ElrondNetwork/elrond-go/config"
	"github.com/ElrondNetwork/elrond-go/data"

	cm "verif/internal/chainmodel"
	"verif/internal/vk"
)

type round struct {
	r   *vk.Run
	c   *vk.Case
	env *cm.Env
	w   *cm.World
	mod uint64

	nodes    map[string]map[string]struct{} // root -> node hashes of that state (main trie + data tries), taken at commit
	executed []request                      // requests already executed and awaited, in order
	commits  []commitRec                    // every commit in order (rolled-back ones included)

	firstMissing string
	tainted      map[string]bool // roots whose snapshot was left incomplete by a report-only data-trie fault or taken from a broken main DB: a later request for the same root (empty block) is skipped by design as "already taken"
	reprocessed  map[string]bool // roots of blocks that were rolled back and processed again (identical block)
	noFinalize   bool            // set during a fault window: the root to be re-requested must not get pruned
	baseBroken   bool            // an earlier request could not be served from an intact main DB: the snapshot DB contents that
	// later checkpoints build on are not trustworthy until the next verified snapshot

	// an interrupted checkpoint (one failed traversal read) that was NOT repeated has happened since the last verified
	// snapshot: the next checkpoint must still be complete (key checkpoint-incomplete-after-interrupted-checkpoint)
	interruptedCkpt bool
	racing          map[string]bool // long-epoch phase: roots of blocks whose Commit overlapped a snapshot request
	lastSnapIdx     int             // long-epoch phase: chain index of the block of the last snapshot

	ops     []string
	blocked int32 // set by the recorder callbacks: prune requests seen while pruning was blocked (window evidence)
	ckptReq []byte
	dead    bool
}

type commitRec struct {
	height uint64
	root   string
	parent string
}

// nodeHistory renders, for one node hash, the commits that created it anew and the requests executed so far
func (ro *round) nodeHistory(h string) []string {
	var out []string
	for _, cr := range ro.commits {
		_, in := ro.nodes[cr.root][h]
		_, inParent := ro.nodes[cr.parent][h]
		if in && !inParent {
			out = append(out, fmt.Sprintf("created by commit h=%d root=%s", cr.height, cm.Short([]byte(cr.root))))
		}
		if !in && inParent {
			out = append(out, fmt.Sprintf("dropped by commit h=%d root=%s", cr.height, cm.Short([]byte(cr.root))))
		}
	}
	for _, q := range ro.executed {
		_, in := ro.nodes[q.root][h]
		out = append(out, fmt.Sprintf("executed %s root=%s (node in that state: %v)", q.kind, cm.Short([]byte(q.root)), in))
	}
	return out
}

type request struct {
	kind      string
	root      string
	commitsAt int // number of commits done when the request had finished (upper bound of what it could see as dirty)
}

// knownCheckpointShape is the witness class of the checkpoint defect found by this monitor: a node hash that was
// written (and erased from every dirty entry of the checkpoint hashes holder) by an earlier checkpoint, is absent
// from the state of the snapshot that later rotated the snapshot DB, and is part of the checkpointed state again.
const knownCheckpointShape = "checkpoint shape=hash-revisited-after-earlier-checkpoint+snapshot-rotation"

// classify decides the key of an incomplete checkpoint from the recorded history: the known shape applies only
// when EVERY node missing from the snapshot DB (a) belongs to the state of a checkpoint A executed before the last
// snapshot, (b) had been created anew by a block committed after A's block and before A's checkpoint finished (so
// it was dirty in a later block's entry while A visited it), and (c) does not belong to the state of that last
// snapshot (the rotation into a new DB that does not hold the node).
func (ro *round) classify(model *cm.Block, sdb data.DBWriteCacher) (bool, int) {
	ro.firstMissing = ""
	want := ro.nodes[string(model.Root)]
	if want == nil || sdb == nil {
		return false, 0
	}
	lastSnap := -1
	for i, q := range ro.executed {
		if q.kind == "snapshot" {
			lastSnap = i
		}
	}
	if lastSnap < 0 {
		return false, 0
	}
	snapNodes := ro.nodes[ro.executed[lastSnap].root]
	missing := 0
	all := true
	for h := range want {
		if _, err := sdb.Get([]byte(h)); err == nil {
			continue
		}
		missing++
		if ro.firstMissing == "" || h < ro.firstMissing {
			ro.firstMissing = h
		}
		if _, inSnap := snapNodes[h]; inSnap || snapNodes == nil {
			all = false
			continue
		}
		earlier := false
		for _, q := range ro.executed[:lastSnap] {
			if q.kind != "checkpoint" {
				continue
			}
			if _, ok := ro.nodes[q.root][h]; !ok {
				continue
			}
			blockIdx := -1
			for i, cr := range ro.commits {
				if cr.root == q.root {
					blockIdx = i
				}
			}
			for i := blockIdx + 1; i < q.commitsAt && i < len(ro.commits); i++ {
				_, in := ro.nodes[ro.commits[i].root][h]
				_, inParent := ro.nodes[ro.commits[i].parent][h]
				if in && !inParent {
					earlier = true
					break
				}
			}
			if earlier {
				break
			}
		}
		if !earlier {
			all = false
		}
	}
	return all && missing > 0, missing
}

func (ro *round) op(s string) {
	ro.ops = append(ro.ops, s)
	if len(ro.ops) > 400 {
		ro.ops = ro.ops[len(ro.ops)-300:]
	}
}

func (ro *round) detail(extra map[string]interface{}) map[string]interface{} {
	ops := ro.ops
	if len(ops) > 80 {
		ops = ops[len(ops)-80:]
	}
	d := map[string]interface{}{"config": fmt.Sprintf("%+v", ro.env.Cfg), "last_ops": ops, "final_idx": ro.w.FinalIdx, "chain_len": len(ro.w.Chain)}
	for k, v := range extra {
		d[k] = v
	}
	return d
}

// abort ends the round without a verdict: the main DB (C09's domain) or the model broke, not a snapshot
func (ro *round) abort(counter, why string) {
	ro.dead = true
	ro.r.Count(counter, 1)
	ro.op("ABORT: " + why)
}

func (ro *round) commit() {
	parent := ro.w.Head()
	restore := ro.w.Chain[ro.c.Rng.Intn(len(ro.w.Chain))]
	var b *cm.Block
	var err error
	if ro.c.Rng.Chance(1, 6) {
		b, err = ro.w.CommitEmpty() // state root unchanged
	} else {
		b, err = ro.w.Commit(ro.c.Rng, false, restore)
	}
	if err != nil {
		ro.abort("rounds_aborted_commit_failed_main_db", "commit failed: "+err.Error())
		return
	}
	reach := map[string]struct{}{}
	if ce := cm.CheckRoot(ro.env.Gate.Raw, b, reach); ce != nil {
		// a fresh commit that is not readable / not equal to the model is not a snapshot matter
		ro.abort("rounds_aborted_fresh_commit_not_readable", "fresh commit: "+ce.Error())
		return
	}
	ro.nodes[string(b.Root)] = reach
	ro.commits = append(ro.commits, commitRec{b.Height, string(b.Root), string(parent.Root)})
	ro.op(fmt.Sprintf("commit h=%d root=%s on %s [%s]", b.Height, cm.Short(b.Root), cm.Short(parent.Root), b.Desc))
}

func (ro *round) rollback() {
	head, prev, err := ro.w.Rollback()
	if err != nil {
		ro.abort("rounds_aborted_rollback_failed_main_db", "rollback failed: "+err.Error())
		return
	}
	ro.op(fmt.Sprintf("rollback head=%s to %s", cm.Short(head.Root), cm.Short(prev.Root)))
}

// reprocess rolls the head back and processes the identical block again (same operations, same root), as a node
// does when it re-processes a block after a rollback
func (ro *round) reprocess() {
	orig := ro.w.Head()
	if !orig.Replayable() {
		// see cm.Block.Replayable: a failed-and-reverted RemoveAccount can succeed the second time
		ro.r.Count("reprocess_skipped_block_not_replayable", 1)
		ro.rollback()
		return
	}
	ro.rollback()
	if ro.dead {
		return
	}
	parent := ro.w.Head()
	b, err := ro.w.Recommit(orig)
	if err != nil {
		ro.abort("rounds_aborted_commit_failed_main_db", "re-processing failed: "+err.Error())
		return
	}
	reach := map[string]struct{}{}
	if ce := cm.CheckRoot(ro.env.Gate.Raw, b, reach); ce != nil {
		ro.abort("rounds_aborted_fresh_commit_not_readable", "re-processed block: "+ce.Error())
		return
	}
	ro.nodes[string(b.Root)] = reach
	ro.commits = append(ro.commits, commitRec{b.Height, string(b.Root), string(parent.Root)})
	ro.reprocessed[string(b.Root)] = true
	ro.r.Count("blocks_reprocessed_after_rollback", 1)
	ro.op(fmt.Sprintf("re-process identical block h=%d root=%s on %s", b.Height, cm.Short(b.Root), cm.Short(parent.Root)))
}

// reprocessedClass is the witness class of an incomplete checkpoint whose holes are exactly nodes created by a block
// that had been rolled back and processed again (same root committed twice)
const reprocessedClass = "checkpoint-incomplete class=block-reprocessed-after-rollback"

// classifyReprocessed: every node missing from the snapshot DB was created anew by a commit whose root was committed
// more than once; with no DB at all for the root (nothing written), the checkpointed root itself must be such a root
func (ro *round) classifyReprocessed(model *cm.Block, sdb data.DBWriteCacher) bool {
	if sdb == nil {
		return ro.reprocessed[string(model.Root)]
	}
	want := ro.nodes[string(model.Root)]
	if want == nil {
		return false
	}
	missing := 0
	for h := range want {
		if _, err := sdb.Get([]byte(h)); err == nil {
			continue
		}
		missing++
		ok := false
		for _, cr := range ro.commits {
			if !ro.reprocessed[cr.root] {
				continue
			}
			_, in := ro.nodes[cr.root][h]
			_, inParent := ro.nodes[cr.parent][h]
			if in && !inParent {
				ok = true
				break
			}
		}
		if !ok {
			return false
		}
	}
	return missing > 0
}

func (ro *round) willCheckpoint(b *cm.Block) bool { return ro.mod != 0 && b.Height%ro.mod == 0 }

// quietStep is one chain step that issues no snapshot/checkpoint request
func (ro *round) quietStep() {
	rng := ro.c.Rng
	switch x := rng.Intn(9); {
	case x < 4:
		ro.commit()
	case x < 7:
		if ro.w.CanFinalize() && !ro.noFinalize && !ro.willCheckpoint(ro.w.NextFinal()) {
			b := ro.w.Finalize()
			ro.op(fmt.Sprintf("finalize idx=%d root=%s", ro.w.FinalIdx, cm.Short(b.Root)))
		} else {
			ro.commit()
		}
	default:
		if !ro.w.CanRollback() {
			ro.commit()
		} else if rng.Chance(1, 3) {
			ro.reprocess()
		} else {
			ro.rollback()
		}
	}
}

// window issues ONE request (snapshot explicitly, or the checkpoint that updateStateStorage fires for this final
// block) the way the block processor does, lets the mutator run <= 5 further chain steps concurrently with the
// snapshot goroutines, then waits until pruning is unblocked and verifies the result.
func (ro *round) window(profile string) {
	rng := ro.c.Rng
	r := ro.r
	b := ro.w.NextFinal()
	kind := "snapshot"
	if ro.willCheckpoint(b) {
		kind = "checkpoint"
	}
	// the state to be snapshotted must be intact in the main DB (pruning defects are C09's subject)
	verifiable := true
	if ce := cm.TraverseRoot(ro.env.Gate.Raw, b, nil); ce != nil {
		verifiable = false
		r.Count("requests_not_verified_root_already_broken_in_main_db", 1)
	} else if ro.tainted[string(b.Root)] {
		verifiable = false
		r.Count("requests_not_verified_same_root_as_an_earlier_unverifiable_snapshot", 1)
	}
	model := &cm.Block{Height: b.Height, Root: append([]byte(nil), b.Root...), Accts: b.Accts}
	nData := 0
	for _, a := range b.Accts {
		if len(a.Stor) > 0 {
			nData++
		}
	}

	if profile == "hold" {
		ro.env.Gate.ArmHold()
	} else {
		ro.env.Gate.ArmSlow()
	}
	// fault phase (1 in 4 snapshot windows): exactly one read of a non-root node of the MAIN trie traversal fails, the
	// snapshot goroutine gives up before the root is written; once pruning is unblocked the same root is requested
	// again and must then be complete. In 1 of 4 fault windows the failing read is a DATA trie node instead; that
	// variant is report-only (see faultInDataTrie below).
	fault := verifiable && rng.Chance(1, 4)
	faultInDataTrie := false
	// checkpoint fault windows come in two variants: "repeat" requests the checkpoint of the same root again (as for
	// snapshots), "next" leaves the interrupted checkpoint alone: the next request - the checkpoint of a later final
	// block, or a snapshot - has to be complete all the same
	repeatAfterFault := true
	if fault && kind == "checkpoint" && (ro.baseBroken || ro.w.NextFinal().Empty) {
		fault = false // nothing to learn: the checkpoint would not be verified / writes nothing
	}
	if fault && kind == "checkpoint" {
		repeatAfterFault = rng.Bool()
	}
	faults0 := atomic.LoadInt64(&ro.env.Gate.FaultsInjected)
	if fault {
		mainNodes, errM := cm.MainTrieHashes(ro.env.Gate.Raw, b.Root)
		targets := map[string]struct{}{}
		if errM == nil {
			if rng.Chance(1, 4) && repeatAfterFault {
				faultInDataTrie = true
				for h := range ro.nodes[string(b.Root)] {
					if _, inMain := mainNodes[h]; !inMain {
						targets[h] = struct{}{}
					}
				}
			} else {
				for h := range mainNodes {
					if h != string(b.Root) {
						targets[h] = struct{}{}
					}
				}
			}
		}
		if len(targets) == 0 {
			fault, faultInDataTrie = false, false
		} else {
			nth := rng.Range(1, 5)
			if kind == "checkpoint" {
				// a checkpoint only reads the children of dirty nodes: the root's children first, then the dirty sub tries
				nth = rng.Range(1, 7)
			}
			if nth > len(targets) {
				nth = len(targets)
			}
			ro.env.Gate.ArmFailOnce(targets, nth)
			ro.noFinalize = repeatAfterFault
		}
	}
	defer func() { ro.noFinalize = false; ro.env.Gate.DisarmFail() }()
	gated0 := atomic.LoadInt64(&ro.env.Gate.GatedGets)
	atomic.StoreInt32(&ro.blocked, 0)
	ro.ckptReq = nil
	k := rng.Range(0, 5)
	overlapped, rolledBack := 0, 0
	done := make(chan struct{})
	go func() { // the mutator
		defer close(done)
		if kind == "snapshot" {
			ro.env.Rec.SnapshotState(append([]byte(nil), b.Root...))
		}
		ro.w.Finalize() // a checkpoint is fired inside updateStateStorage when height % modulus == 0
		ro.op(fmt.Sprintf("finalize idx=%d root=%s + %s request", ro.w.FinalIdx, cm.Short(b.Root), kind))
		ro.env.Gate.Release(rng.Range(0, 6))
		for i := 0; i < k && !ro.dead; i++ {
			if ro.env.Tsm.IsPruningBlocked() {
				overlapped++
			}
			before := len(ro.w.Chain)
			ro.quietStep()
			if len(ro.w.Chain) < before {
				rolledBack++
			}
			ro.env.Gate.Release(rng.Range(0, 8))
		}
	}()
	select {
	case <-done:
	case <-time.After(300 * time.Second):
		ro.env.Gate.Open()
		r.Inconclusive("mutator did not finish its <= 5 chain steps within 300 s")
		ro.dead = true
		return
	}
	ro.env.Gate.Open()
	if !cm.WaitUnblocked(ro.env.Tsm, 300*time.Second) {
		r.Inconclusive(kind + " did not finish (pruning still blocked) within 300 s after the window")
		ro.dead = true
		return
	}
	injected := false
	if fault {
		ro.env.Gate.DisarmFail()
		injected = atomic.LoadInt64(&ro.env.Gate.FaultsInjected) > faults0
		r.Count("fault_windows", 1)
		if injected {
			r.Count("fault_windows_with_injected_read_fault", 1)
		}
		// the root must still be intact in the main DB for the second attempt (nothing was finalized meanwhile)
		if ce := cm.TraverseRoot(ro.env.Gate.Raw, b, nil); ce != nil && verifiable {
			verifiable = false
			r.Count("requests_not_verified_root_already_broken_in_main_db", 1)
		}
		if injected {
			r.Count("fault_windows_"+kind+"_with_injected_read_fault", 1)
		}
		if !repeatAfterFault {
			if injected {
				// variant "next": the interrupted checkpoint is not repeated and not verified; what it did save stays in
				// the snapshot DB, what it did not save stays marked dirty, so the next request must be complete
				r.Count("fault_windows_checkpoint_interrupted_and_not_repeated", 1)
				ro.op(fmt.Sprintf("checkpoint of root=%s interrupted by one failed read, NOT repeated", cm.Short(b.Root)))
				ro.interruptedCkpt = true
				ro.executed = append(ro.executed, request{kind, string(model.Root), len(ro.commits)})
				r.Count("requests_"+kind, 1)
				return
			}
		} else {
			if kind == "snapshot" {
				ro.env.Rec.SnapshotState(append([]byte(nil), b.Root...))
			} else {
				ro.env.Rec.SetStateCheckpoint(append([]byte(nil), b.Root...))
			}
			ro.op(fmt.Sprintf("%s request for root=%s repeated after the interrupted attempt (fault injected: %v)", kind, cm.Short(b.Root), injected))
			if !cm.WaitUnblocked(ro.env.Tsm, 300*time.Second) {
				r.Inconclusive("repeated " + kind + " did not finish within 300 s")
				ro.dead = true
				return
			}
		}
		ro.noFinalize = false
	}
	gated := atomic.LoadInt64(&ro.env.Gate.GatedGets) - gated0
	r.Count("requests_"+kind, 1)
	r.Count("window_chain_steps", k)
	r.Count("window_steps_while_snapshot_in_progress", overlapped)
	r.Count("window_rollbacks", rolledBack)
	r.Count("window_prune_requests_while_blocked", int(atomic.LoadInt32(&ro.blocked)))
	r.Count("traversal_reads_held_or_slowed", int(gated))
	if kind == "checkpoint" && ro.ckptReq == nil {
		r.Inconclusive("updateStateStorage did not request the expected checkpoint")
		ro.dead = true
		return
	}
	if ro.dead {
		return
	}
	if !verifiable {
		ro.baseBroken = true
		ro.tainted[string(model.Root)] = true
		ro.executed = append(ro.executed, request{kind, string(model.Root), len(ro.commits)})
		return
	}
	if ro.baseBroken && kind == "checkpoint" {
		// the checkpoint adds to a snapshot DB whose base was taken from a main DB that had already lost nodes
		r.Count("requests_not_verified_base_snapshot_taken_from_broken_main_db", 1)
		ro.tainted[string(model.Root)] = true // a later snapshot request for this root is skipped as "already taken"
		ro.executed = append(ro.executed, request{kind, string(model.Root), len(ro.commits)})
		return
	}

	r.Eval(1)
	sig := fmt.Sprintf("%s %s k%d ov%v rb%v pr%v data%d q%d f%v", kind, profile, k, overlapped > 0, rolledBack > 0, atomic.LoadInt32(&ro.blocked) > 0, nData, ro.env.Cfg.QueueSize, injected)
	if nData == 0 {
		r.Trivial()
	} else {
		r.Shape(sig)
	}
	key, what, extra := ro.verify(kind, model)
	if injected && faultInDataTrie {
		// REPORT-ONLY: a read fault inside a data-trie traversal happens after the main trie (root included) was
		// written, so the repeated request is skipped as "already taken" by design of isPresentInLastSnapshotDb and
		// the data trie stays missing. This is outside the fault model the monitor asserts (main-trie interruption).
		r.Count("report_only_fault_in_data_trie_windows", 1)
		if key != "" {
			r.Count("report_only_fault_in_data_trie_snapshot_stays_incomplete_after_retry", 1)
			ro.baseBroken = true
			ro.tainted[string(model.Root)] = true
			ro.executed = append(ro.executed, request{kind, string(model.Root), len(ro.commits)})
			return
		}
	}
	generic := key != "" && key != knownCheckpointShape && key != reprocessedClass
	if generic && injected {
		key = kind + "-incomplete-after-interrupted-attempt"
		what = "first attempt interrupted by one failed read, request repeated after pruning was unblocked: " + what
	} else if generic && ro.interruptedCkpt {
		key = kind + "-incomplete-after-interrupted-checkpoint"
		what = "an earlier checkpoint had been interrupted by one failed read and was not repeated: " + what
	}
	if ro.interruptedCkpt {
		r.Count("requests_verified_after_an_interrupted_unrepeated_checkpoint", 1)
	}
	ro.executed = append(ro.executed, request{kind, string(model.Root), len(ro.commits)})
	if key == "" {
		if kind == "snapshot" {
			ro.baseBroken = false
			ro.interruptedCkpt = false // a snapshot is self-contained and resets the dirty bookkeeping up to its root
		}
		if r.NeedSample() && ro.c.Idx < 3 && overlapped > 0 {
			n := len(ro.ops)
			lo := n - (k + 1)
			if lo < 0 {
				lo = 0
			}
			r.Sample(map[string]interface{}{"case": ro.c.Idx, "kind": kind, "root": vk.Hex(model.Root), "accounts": len(model.Accts), "accounts_with_data_trie": nData,
				"gate": profile, "concurrent_steps": append([]string{}, ro.ops[lo:]...), "traversal_reads_held_or_slowed": gated, "result": "complete"})
		}
		return
	}
	ro.dead = true
	extra["window_steps"] = k
	extra["gate"] = profile
	r.Violation(ro.c.Idx, key, what, ro.detail(extra))
}

// verify is the oracle: after pruning is unblocked, the DB that GetSnapshotThatContainsHash returns must hold the
// full state of the root by itself (main trie + every data trie), equal to the model copy. It returns the
// violation key ("" = complete).
func (ro *round) verify(kind string, model *cm.Block) (string, string, map[string]interface{}) {
	r := ro.r
	var fail *cm.CheckErr
	missingRoot := false
	knownShape, nMissing := false, 0
	reproc := false
	attempts := 1
	if ro.env.Cfg.SnapshotDB.Type == "LvlDBSerial" {
		// SerialDB.putBatch swaps its write batch before the old batch reaches leveldb: a Get can fall between
		// the two for a moment. Stored data is persistent, so a genuine hole stays a hole on re-reading.
		// Re-reading is bounded by 1 s.
		attempts = 10
	}
	for attempt := 0; attempt < attempts; attempt++ {
		if attempt > 0 {
			time.Sleep(100 * time.Millisecond)
			r.Count("verification_retries", 1)
		}
		fail, missingRoot = nil, false
		sdb := ro.env.Tsm.GetSnapshotThatContainsHash(model.Root)
		if sdb == nil {
			missingRoot = true
			reproc = kind == "checkpoint" && ro.classifyReprocessed(model, nil)
			continue
		}
		fail = cm.CheckRoot(sdb, model, nil)
		if fail != nil && fail.Kind != "mismatch" && kind == "checkpoint" {
			knownShape, nMissing = ro.classify(model, sdb)
			reproc = !knownShape && ro.classifyReprocessed(model, sdb)
		}
		sdb.DecreaseNumReferences()
		if fail == nil {
			return "", "", nil
		}
	}
	extra := map[string]interface{}{"root": vk.Hex(model.Root), "kind": kind}
	if missingRoot && reproc {
		return reprocessedClass, fmt.Sprintf("after the checkpoint of final root %s finished, no snapshot DB contains the root; the block with this root had been rolled back and processed again", cm.Short(model.Root)), extra
	}
	if missingRoot {
		return kind + "-root-missing", fmt.Sprintf("after the %s of final root %s finished (pruning unblocked), no snapshot DB contains the root", kind, cm.Short(model.Root)), extra
	}
	extra["error"] = fail.Error()
	extra["missing_nodes"] = nMissing
	if ro.firstMissing != "" {
		// diagnostics: does any (other) snapshot DB hold the missing node?
		if rootDb := ro.env.Tsm.GetSnapshotThatContainsHash(model.Root); rootDb != nil {
			if nodeDb := ro.env.Tsm.GetSnapshotThatContainsHash([]byte(ro.firstMissing)); nodeDb != nil {
				extra["missing_node_found_in_another_snapshot_db"] = nodeDb != rootDb
				nodeDb.DecreaseNumReferences()
			} else {
				extra["missing_node_found_in_another_snapshot_db"] = false
			}
			rootDb.DecreaseNumReferences()
		}
		extra["a_missing_node"] = vk.Hex([]byte(ro.firstMissing))
		extra["a_missing_node_history"] = ro.nodeHistory(ro.firstMissing)
	}
	what := fmt.Sprintf("%s of final root %s is not complete in its snapshot DB alone: %s", kind, cm.Short(model.Root), fail.Error())
	if knownShape {
		return knownCheckpointShape, what + fmt.Sprintf(" (all %d missing nodes were in the state of an earlier executed checkpoint and absent from the state of the last snapshot)", nMissing), extra
	}
	if reproc {
		return reprocessedClass, what + " (every missing node was created by a block that had been rolled back and processed again)", extra
	}
	cls := map[string]string{"main-missing": "main-trie-incomplete", "data-missing": "data-trie-incomplete", "mismatch": "content-mismatch"}[fail.Kind]
	return kind + "-" + cls, what, extra
}

// directed witnesses: minimal, fully sequential histories of the checkpoint defect this monitor found, replayed
// through the same oracle in every run. N is the code leaf {codeA, 1 reference}; every block is committed before
// anything is finalized (the head is ahead of the final block), every request is awaited before the next one.
//
//	#0: h1 creates N, h2 drops it, h3 creates it again; checkpoint(h1), snapshot(h2), checkpoint(h3).
//	#1: h1 creates N, h2 keeps it, h3 drops it, h4 creates it again; snapshot(h1), checkpoint(h2), snapshot(h3),
//	    checkpoint(h4): checkpoint(h2) finds N dirty only because of h4 and erases it from h4's dirty entry.
func runDirected(r *vk.Run, c *vk.Case, variant int) {
	env, err := cm.NewEnv(cm.EnvConfig{MaxTrieLevelInMem: 5, EwlCache: 3, PruningBufferLen: 1000, QueueSize: 6, CheckpointModulus: 0, MaxSnapshots: 3})
	if err != nil {
		r.Inconclusive("environment construction failed: " + err.Error())
		return
	}
	defer env.Close()
	ro := &round{r: r, c: c, env: env, w: cm.NewWorld(env), nodes: map[string]map[string]struct{}{}}
	codeA, none := "codeA", ""
	genesis := []cm.ScriptOp{{Addr: 1, Key: "k0", Val: "v0"}, {Addr: 2, Key: "k1", Val: "v1"}}
	create := []cm.ScriptOp{{Addr: 0, SetCode: &codeA}}
	drop := []cm.ScriptOp{{Addr: 0, SetCode: &none}}
	keep := []cm.ScriptOp{{Addr: 3, Key: "q", Val: "v0"}}
	scripts := [][]cm.ScriptOp{genesis, create, drop, create}
	kinds := []string{"checkpoint", "snapshot", "checkpoint"}
	if variant == 1 {
		scripts = [][]cm.ScriptOp{genesis, create, keep, drop, create}
		kinds = []string{"snapshot", "checkpoint", "snapshot", "checkpoint"}
	}
	var blocks []*cm.Block
	for _, sc := range scripts {
		parent := ""
		if len(ro.w.Chain) > 0 {
			parent = string(ro.w.Head().Root)
		}
		b, errC := ro.w.CommitScript(sc)
		if errC != nil {
			r.Inconclusive("directed witness: commit failed: " + errC.Error())
			return
		}
		reach := map[string]struct{}{}
		if ce := cm.CheckRoot(env.Gate.Raw, b, reach); ce != nil {
			r.Inconclusive("directed witness: fresh commit does not match the model: " + ce.Error())
			return
		}
		ro.nodes[string(b.Root)] = reach
		ro.commits = append(ro.commits, commitRec{b.Height, string(b.Root), parent})
		ro.op(fmt.Sprintf("commit h=%d root=%s [%s]", b.Height, cm.Short(b.Root), b.Desc))
		blocks = append(blocks, b)
	}
	for i, kind := range kinds {
		b := blocks[i+1]
		if kind == "snapshot" {
			env.Rec.SnapshotState(append([]byte(nil), b.Root...))
		} else {
			env.Rec.SetStateCheckpoint(append([]byte(nil), b.Root...))
		}
		ro.w.Finalize()
		ro.op(fmt.Sprintf("%s(h=%d root=%s) + finalize, awaited", kind, b.Height, cm.Short(b.Root)))
		if !cm.WaitUnblocked(env.Tsm, 300*time.Second) {
			r.Inconclusive("directed witness: " + kind + " did not finish within 300 s")
			return
		}
		model := &cm.Block{Height: b.Height, Root: append([]byte(nil), b.Root...), Accts: b.Accts}
		r.Eval(1)
		r.Count("directed_witness_requests", 1)
		key, what, extra := ro.verify(kind, model)
		ro.executed = append(ro.executed, request{kind, string(model.Root), len(ro.commits)})
		if key != "" {
			extra["directed_witness"] = variant
			r.Violation(c.Idx, key, fmt.Sprintf("directed witness #%d: %s", variant, what), ro.detail(extra))
			return
		}
	}
}

func runRound(r *vk.Run, c *vk.Case, scratch string) {
	rng := c.Rng
	cfg := cm.EnvConfig{
		MaxTrieLevelInMem: uint([]int{1, 2, 5}[rng.Intn(3)]),
		EwlCache:          uint(rng.Range(1, 3)),
		PruningBufferLen:  1000,
		QueueSize:         uint(rng.Range(0, 2)),
		CheckpointModulus: uint(rng.Range(2, 4)),
		MaxSnapshots:      uint32(rng.Range(2, 3)),
	}
	// round types: 3 of 4 cannot contain the known checkpoint shape at all
	rtype := []string{"mixed", "snapshots-only", "checkpoints-only", "mixed-monotone"}[c.Idx%4]
	switch rtype {
	case "snapshots-only":
		cfg.CheckpointModulus = 0 // no checkpoint ever
	case "checkpoints-only":
		cfg.CheckpointModulus = 1 // every finalization is a checkpoint: no snapshot, hence no rotation
	}
	dbKind := "MemoryDB"
	if !r.Quick() && (c.Idx/4)%2 == 1 {
		dbKind = "LvlDBSerial"
		dir := filepath.Join(scratch, fmt.Sprintf("c10-snap-%d-%d", r.Seed, c.Idx))
		_ = os.MkdirAll(dir, 0o755)
		defer os.RemoveAll(dir)
		cfg.SnapshotDB = config.DBConfig{FilePath: dir, Type: "LvlDBSerial", BatchDelaySeconds: 1, MaxBatchSize: 7, MaxOpenFiles: 10}
	}
	profile := "hold"
	if (c.Idx/4)%3 == 2 {
		profile = "slow"
	}
	env, err := cm.NewEnv(cfg)
	if err != nil {
		r.Inconclusive("environment construction failed: " + err.Error())
		return
	}
	defer env.Close()
	ro := &round{r: r, c: c, env: env, w: cm.NewWorld(env), mod: uint64(cfg.CheckpointModulus), nodes: map[string]map[string]struct{}{}, reprocessed: map[string]bool{}, tainted: map[string]bool{}}
	env.Rec.OnPrune = func(root []byte, id data.TriePruningIdentifier) {
		if env.Tsm.IsPruningBlocked() {
			atomic.AddInt32(&ro.blocked, 1)
		}
	}
	env.Rec.OnCheckpoint = func(root []byte) { ro.ckptReq = root }
	ro.w.Monotone = rtype == "mixed-monotone"
	r.Count("rounds_type_"+rtype, 1)
	b0, err := ro.w.Commit(rng, true, nil)
	if err != nil {
		r.Inconclusive("genesis commit failed: " + err.Error())
		return
	}
	reach0 := map[string]struct{}{}
	if ce := cm.CheckRoot(env.Gate.Raw, b0, reach0); ce != nil {
		r.Inconclusive("genesis state does not match the model: " + ce.Error())
		return
	}
	ro.nodes[string(b0.Root)] = reach0
	ro.op(fmt.Sprintf("commit h=0 root=%s [%s]", cm.Short(b0.Root), b0.Desc))
	r.Count("rounds_"+dbKind, 1)
	r.Count("rounds_gate_"+profile, 1)

	nReq := 12
	for i := 0; i < nReq && !ro.dead; i++ {
		for q := rng.Range(0, 3); q > 0 && !ro.dead; q-- {
			ro.quietStep()
		}
		for !ro.dead && !ro.w.CanFinalize() {
			ro.commit()
		}
		if ro.dead {
			break
		}
		// finalizations that request nothing are done in quiet steps; here the next final block gets a request:
		// the checkpoint if its height is a multiple of the modulus, else an explicit snapshot
		ro.window(profile)
	}
	for k, v := range ro.w.Counts {
		r.Count("op_"+k, v)
	}
}

func main() {
	_ = logger.SetLogLevel("*:NONE")
	r := vk.Start("C10")
	r.Rule("each case is one round: a chain over 6 accounts + counter account (storage, code, removals) with 12 request windows. A window takes the block that becomes final next, issues exactly one request for its root the way the block processors do (explicit SnapshotState before updateStateStorage, or the checkpoint that updateStateStorage itself fires when height % CheckpointRoundsModulus == 0), then a mutator goroutine runs 0-5 further chain steps (commit / finalize with prune requests / rollback above the final block) concurrently with the snapshot goroutines, whose main-DB reads are held on logical tokens released per step (2/3 of the rounds) or slowed (1/3); then the harness waits for IsPruningBlocked()==false and verifies. One request outstanding at a time, final roots only, SnapshotsBufferLen 10000, MaxSnapshots 2-3. Round types by case index mod 4: mixed (snapshots + modulus checkpoints) / snapshots only / checkpoints only (modulus 1, no rotation) / mixed with monotone state (no node-hash revisit: unique slot values, no removals, code fixed after block 0) - only the first type can contain the known checkpoint shape. Two extra fixed cases replay the minimal sequential witnesses of that shape. 1 in 6 commits is an empty block (root equal to its parent's). Chain steps include re-processing: the head is rolled back and the identical block (same operations, same root) is committed again. 1 in 4 windows (snapshot or checkpoint) is a fault window: exactly one read of a non-root main-trie node of the traversal fails (the snapshot goroutine gives up). For snapshots and half of the checkpoints nothing is finalized meanwhile and, once pruning is unblocked, the same request is issued again for the same root and then verified; for the other half of the checkpoints the interrupted checkpoint is NOT repeated and the next request (the checkpoint of a later final block, or a snapshot) is verified as usual. After the random rounds, LONG-EPOCH rounds (8 quick / 120 thorough, 5 epochs each, sequential and awaited except for one overlap per epoch): blocks ahead of the final one are finalized with explicit verified checkpoints (2 of 3) or quietly; the checkpoint hashes holder is pre-loaded with 5000 (thorough 20000) empty entries (the holder of a node that committed and checkpointed many blocks since its last snapshot); 1-2 blocks are committed and the last one S is snapshotted: SnapshotState(S), finalize S, commit the next block R (+0-2 more) on the mutator goroutine, while a decorator of the holder (the harness supplies the CheckpointHashesHolder) starts the request's RemoveCommitted only when R's AddDirtyCheckpointHashes is about to Put and lets that Put go as soon as RemoveCommitted was started; the snapshot of S and, in the next epoch, the checkpoints that cover R are verified. A window is non-trivial when the state has at least one data trie; distinct = distinct (kind, gate, steps, overlapped, rollback-in-window, prunes-buffered-in-window, #data tries, queue size) tuples.")
	r.Assume(
		"requests never overlap and are issued only for roots of blocks that have just become final (DESIGN C10 restrictions); overlapping requests are outside the property",
		"a request whose root is already incomplete in the main DB at request time is not verified (pruning defects are C09's subject) and only counted; neither are the checkpoints that build on such a request, until the next verified snapshot",
		"traversal 'using only that DB': a fresh trie over trieStorageManagerWithoutPruning(snapshot DB)",
		"with LvlDBSerial snapshot DBs only, verification reads are retried for up to 1 s (100 ms apart) (SerialDB swaps its write batch before flushing it; stored data is persistent, a real hole stays a hole); no retry with MemoryDB",
		"an interrupted snapshot or checkpoint attempt may leave a partial snapshot DB behind; the property is checked on the repeated request (key <kind>-incomplete-after-interrupted-attempt) or, for checkpoints that are not repeated, on the next request (key <kind>-incomplete-after-interrupted-checkpoint); faults inside a data-trie traversal stay report-only",
		"long-epoch rounds: pre-loaded holder entries have an empty hash set and a root hash that is no trie node, so they never change ShouldCommit; the holder decorator only orders the start of RemoveCommitted (snapshot goroutine, no lock held) after the arrival of the next Put and yields in that Put (inside AccountsDB.Commit, whose mutex no other party of the overlap needs); both waits are bounded and never decide a verdict",
		"waiting is bounded by logical steps; the 300 s wall-clock watchdogs only ever yield INCONCLUSIVE",
	)
	r.MinShapes(20)
	scratch := os.Getenv("VERIF_SCRATCH")
	if scratch == "" {
		d, err := os.MkdirTemp("", "verif-c10-")
		if err == nil {
			scratch = d
			defer os.RemoveAll(d)
		}
	}
	n := r.N(32, 600)
	nLong := r.N(8, 120)
	preload := r.N(5000, 20000)
	r.Parallel(n+2+nLong, func(c *vk.Case) {
		if c.Idx >= n+2 {
			runLongEpoch(r, c, preload)
			return
		}
		if c.Idx >= n {
			runDirected(r, c, c.Idx-n) // two scripted, fully sequential cases
			return
		}
		runRound(r, c, scratch)
	})
	if races := vk.CollectRaces(); len(races) > 0 {
		r.Extra("race_reports", races)
	}
	r.Extra("rounds", n)
	r.Extra("long_epoch_rounds", nLong)
	if r.ReplayCase < 0 && r.Counter("requests_snapshot")+r.Counter("requests_checkpoint") < int64(n)*6 {
		r.Inconclusive("fewer than half of the planned requests were verified")
	}
	if r.ReplayCase < 0 && r.Counter("long_epoch_commit_overlapped_snapshot_request") < int64(nLong) {
		r.Inconclusive("long-epoch phase: fewer than one commit per round overlapped a snapshot request")
	}
	if r.ReplayCase < 0 && r.Counter("fault_windows_checkpoint_with_injected_read_fault") == 0 {
		r.Inconclusive("no checkpoint was ever interrupted by an injected read fault")
	}
	if r.ReplayCase < 0 && r.Counter("window_steps_while_snapshot_in_progress") == 0 {
		r.Inconclusive("no chain step ever overlapped a snapshot in progress")
	}
	r.Finish()
}
