package main

import (
	"fmt"
	"sync/atomic"
	"time"

	"github.com/ElrondNetwork/elrond-go/data"

	cm "verif/internal/chainmodel"
	"verif/internal/vk"
)

// Long-epoch phase: the snapshot REQUEST itself (TakeSnapshot -> CheckpointHashesHolder.RemoveCommitted, on the
// goroutine SnapshotState spawns) runs concurrently with the Commit of the next block (AccountsDB.Commit ->
// AddDirtyCheckpointHashes -> CheckpointHashesHolder.Put, on the processing goroutine), on a holder that carries the
// entries of many blocks committed since the last snapshot. Afterwards the block committed during the request (or a
// later block that still contains its nodes) gets a checkpoint, which must be complete in the snapshot DB alone.
//
// One round = a chain with `epochs` epochs, everything sequential and awaited except the overlap:
//  1. every block ahead of the final block is made final, each with an explicit SetStateCheckpoint (2 of 3) or
//     quietly; every checkpoint is awaited and verified;
//  2. the holder is pre-loaded with N entries with empty hash sets (cm.HolderDeco.Preload: the state of a holder
//     after many blocks whose dirty hashes were erased by checkpoints);
//  3. 1-2 blocks are committed; the last one, S, is the block to be snapshotted (the "epoch start block");
//  4. the mutator goroutine issues SnapshotState(S), finalizes S and commits the next block R (plus 0-2 more
//     blocks); the holder decorator starts the request's RemoveCommitted when R's Put is about to be made and lets
//     the Put go right after the RemoveCommitted call was started (cm.HolderDeco.ArmOverlap); the snapshot of S is
//     awaited and verified.
//
// The checkpoints of step 1 of the next epoch are the ones that cover R.
const longEpochClass = "checkpoint-incomplete class=block-committed-while-snapshot-request-in-progress"

func (ro *round) commitNonEmpty() *cm.Block {
	parent := ro.w.Head()
	restore := ro.w.Chain[ro.c.Rng.Intn(len(ro.w.Chain))]
	b, err := ro.w.Commit(ro.c.Rng, false, restore)
	if err != nil {
		ro.abort("rounds_aborted_commit_failed_main_db", "commit failed: "+err.Error())
		return nil
	}
	reach := map[string]struct{}{}
	if ce := cm.CheckRoot(ro.env.Gate.Raw, b, reach); ce != nil {
		ro.abort("rounds_aborted_fresh_commit_not_readable", "fresh commit: "+ce.Error())
		return nil
	}
	ro.nodes[string(b.Root)] = reach
	ro.commits = append(ro.commits, commitRec{b.Height, string(b.Root), string(parent.Root)})
	ro.op(fmt.Sprintf("commit h=%d root=%s on %s [%s]", b.Height, cm.Short(b.Root), cm.Short(parent.Root), b.Desc))
	return b
}

// racingAtOrBelow tells whether a block committed during a snapshot request lies on the chain above the block of the
// last snapshot and at or below idx (a snapshot at or above such a block covers it by itself)
func (ro *round) racingAtOrBelow(idx int) bool {
	for i := idx; i > ro.lastSnapIdx && i >= 0; i-- {
		if ro.racing[string(ro.w.Chain[i].Root)] {
			return true
		}
	}
	return false
}

// finalizeAhead makes every block up to (not including) keep blocks below the head final, with awaited+verified
// explicit checkpoints for 2 of 3 of them
func (ro *round) finalizeAhead(keep int) {
	r := ro.r
	for !ro.dead && ro.w.FinalIdx+1 < len(ro.w.Chain)-keep {
		b := ro.w.NextFinal()
		if !ro.c.Rng.Chance(2, 3) {
			ro.w.Finalize()
			ro.op(fmt.Sprintf("finalize idx=%d root=%s", ro.w.FinalIdx, cm.Short(b.Root)))
			continue
		}
		if ce := cm.TraverseRoot(ro.env.Gate.Raw, b, nil); ce != nil {
			ro.abort("rounds_aborted_root_broken_in_main_db", "root to be checkpointed is broken in the main DB: "+ce.Error())
			return
		}
		idx := ro.w.FinalIdx + 1
		ro.env.Rec.SetStateCheckpoint(append([]byte(nil), b.Root...))
		ro.w.Finalize()
		ro.op(fmt.Sprintf("checkpoint(h=%d root=%s) + finalize, awaited", b.Height, cm.Short(b.Root)))
		if !cm.WaitUnblocked(ro.env.Tsm, 300*time.Second) {
			r.Inconclusive("long-epoch phase: checkpoint did not finish within 300 s")
			ro.dead = true
			return
		}
		model := &cm.Block{Height: b.Height, Root: append([]byte(nil), b.Root...), Accts: b.Accts}
		r.Eval(1)
		r.Count("long_epoch_checkpoints_verified", 1)
		covers := ro.racingAtOrBelow(idx)
		if covers {
			r.Count("long_epoch_checkpoints_covering_a_block_committed_during_a_snapshot_request", 1)
		}
		key, what, extra := ro.verify("checkpoint", model)
		ro.executed = append(ro.executed, request{"checkpoint", string(model.Root), len(ro.commits)})
		if key != "" {
			if covers && key != knownCheckpointShape && key != reprocessedClass {
				extra["generic_key"] = key
				key = longEpochClass
				what = "a block at or below the checkpointed one was committed while a snapshot request was scanning the checkpoint hashes holder: " + what
			}
			ro.dead = true
			r.Violation(ro.c.Idx, key, what, ro.detail(extra))
			return
		}
	}
}

func runLongEpoch(r *vk.Run, c *vk.Case, preload int) {
	rng := c.Rng
	cfg := cm.EnvConfig{
		MaxTrieLevelInMem: uint([]int{1, 2, 5}[rng.Intn(3)]),
		EwlCache:          uint(rng.Range(1, 3)),
		PruningBufferLen:  1000,
		QueueSize:         uint(rng.Range(0, 2)),
		CheckpointModulus: 0, // checkpoints are requested explicitly (SetStateCheckpoint before updateStateStorage)
		MaxSnapshots:      uint32(rng.Range(2, 3)),
	}
	env, err := cm.NewEnv(cfg)
	if err != nil {
		r.Inconclusive("environment construction failed: " + err.Error())
		return
	}
	defer env.Close()
	ro := &round{r: r, c: c, env: env, w: cm.NewWorld(env), nodes: map[string]map[string]struct{}{}, reprocessed: map[string]bool{}, tainted: map[string]bool{}, racing: map[string]bool{}}
	env.Rec.OnPrune = func(root []byte, id data.TriePruningIdentifier) {
		if env.Tsm.IsPruningBlocked() {
			atomic.AddInt32(&ro.blocked, 1)
		}
	}
	// half of the rounds cannot contain the known checkpoint shape (no node-hash revisit at all)
	ro.w.Monotone = c.Idx%2 == 0
	r.Count("long_epoch_rounds", 1)
	b0, err := ro.w.Commit(rng, true, nil)
	if err != nil {
		r.Inconclusive("genesis commit failed: " + err.Error())
		return
	}
	reach0 := map[string]struct{}{}
	if ce := cm.CheckRoot(env.Gate.Raw, b0, reach0); ce != nil {
		r.Inconclusive("genesis state does not match the model: " + ce.Error())
		return
	}
	ro.nodes[string(b0.Root)] = reach0
	ro.op(fmt.Sprintf("commit h=0 root=%s [%s]", cm.Short(b0.Root), b0.Desc))

	const epochs = 5
	for e := 0; e < epochs && !ro.dead; e++ {
		ro.finalizeAhead(0)
		if ro.dead {
			break
		}
		env.Holder.Preload(preload)
		ro.op(fmt.Sprintf("holder pre-loaded with %d entries (blocks since the last snapshot)", preload))
		for m := rng.Range(1, 2); m > 0 && !ro.dead; m-- {
			ro.commitNonEmpty()
		}
		ro.finalizeAhead(1)
		if ro.dead {
			break
		}
		s := ro.w.NextFinal() // == head
		if ce := cm.TraverseRoot(env.Gate.Raw, s, nil); ce != nil {
			ro.abort("rounds_aborted_root_broken_in_main_db", "root to be snapshotted is broken in the main DB: "+ce.Error())
			break
		}
		model := &cm.Block{Height: s.Height, Root: append([]byte(nil), s.Root...), Accts: s.Accts}
		nData := 0
		for _, a := range s.Accts {
			if len(a.Stor) > 0 {
				nData++
			}
		}
		env.Gate.ArmSlow()
		arranged0 := atomic.LoadInt64(&env.Holder.OverlapsArranged)
		during0 := atomic.LoadInt64(&env.Holder.PutsDuringRC)
		env.Holder.ArmOverlap()
		more := rng.Range(0, 2)
		var racer *cm.Block
		done := make(chan struct{})
		go func() { // the mutator = the block processing goroutine
			defer close(done)
			env.Rec.SnapshotState(append([]byte(nil), s.Root...))
			ro.w.Finalize()
			ro.op(fmt.Sprintf("finalize idx=%d root=%s + snapshot request", ro.w.FinalIdx, cm.Short(s.Root)))
			racer = ro.commitNonEmpty() // its AddDirtyCheckpointHashes overlaps the request's RemoveCommitted
			for i := 0; i < more && !ro.dead; i++ {
				ro.commitNonEmpty()
			}
		}()
		select {
		case <-done:
		case <-time.After(300 * time.Second):
			env.Gate.Open()
			r.Inconclusive("long-epoch phase: mutator did not finish within 300 s")
			ro.dead = true
		}
		env.Holder.Disarm()
		env.Gate.Open()
		if ro.dead {
			break
		}
		if !cm.WaitUnblocked(env.Tsm, 300*time.Second) {
			r.Inconclusive("long-epoch phase: snapshot did not finish within 300 s")
			ro.dead = true
			break
		}
		arranged := atomic.LoadInt64(&env.Holder.OverlapsArranged) > arranged0
		during := atomic.LoadInt64(&env.Holder.PutsDuringRC) > during0
		r.Count("long_epoch_snapshot_requests", 1)
		if arranged {
			r.Count("long_epoch_commit_overlapped_snapshot_request", 1)
		}
		if during {
			r.Count("long_epoch_put_arrived_while_remove_committed_in_progress", 1)
		}
		if racer != nil {
			ro.racing[string(racer.Root)] = true
		}
		r.Eval(1)
		if nData == 0 {
			r.Trivial()
		} else {
			r.Shape(fmt.Sprintf("long-epoch snapshot e%d more%d data%d q%d mono%v arranged%v", e, more, nData, cfg.QueueSize, ro.w.Monotone, arranged))
		}
		key, what, extra := ro.verify("snapshot", model)
		ro.executed = append(ro.executed, request{"snapshot", string(model.Root), len(ro.commits)})
		ro.lastSnapIdx = ro.w.FinalIdx
		for i, cb := range ro.w.Chain {
			if cb == s {
				ro.lastSnapIdx = i
			}
		}
		if key != "" {
			ro.dead = true
			r.Violation(c.Idx, key, "long-epoch phase: "+what, ro.detail(extra))
			break
		}
	}
	if !ro.dead {
		ro.finalizeAhead(0)
	}
	r.Count("long_epoch_holder_entries_preloaded", int(atomic.LoadInt64(&env.Holder.Preloaded)))
	r.Count("long_epoch_overlap_wait_timeouts", int(atomic.LoadInt64(&env.Holder.OverlapWaitTimeouts)))
	for k, v := range ro.w.Counts {
		r.Count("op_"+k, v)
	}
}
