// C19 — a body is accepted as belonging to a header only if its miniblocks are exactly the listed ones.
// Monitor shape: reference model over a small universe, driven through the real ProcessBlock of a
// mock-assembled shard processor and meta processor (no hook needed: the correlation check is the first
// body-dependent step of ProcessBlock and a matching pair runs to completion with nil).
// Universe: 4 miniblocks (different tx sets, receiver shards, types; one is a retyped copy of another);
// header entries = for each miniblock the correct entry or one with a wrong type / receiver / sender /
// tx count on the correct hash, or an entry with an unknown hash; headers = lists of <= 3 entries, bodies =
// lists of <= 3 miniblocks (duplicates, omissions, reorderings included).
// Oracle: ProcessBlock passes the correlation check (err is not ErrHeaderBodyMismatch/ErrNilMiniBlock)
//
//	<=>  multiset bijection between header entries and body miniblocks with equal
//	     hash/sender/receiver/type/txcount; and a matching pair must give err == nil.
package main

import (
	"errors"
	"fmt"
	"math/big"
	"strings"
	"time"

	logger "github.com/ElrondNetwork/elrond-go-logger"
	"github.com/ElrondNetwork/elrond-go/config"
	"github.com/ElrondNetwork/elrond-go/core"
	"github.com/ElrondNetwork/elrond-go/data"
	"github.com/ElrondNetwork/elrond-go/data/block"
	"github.com/ElrondNetwork/elrond-go/data/blockchain"
	"github.com/ElrondNetwork/elrond-go/data/state"
	"github.com/ElrondNetwork/elrond-go/hashing/blake2b"
	"github.com/ElrondNetwork/elrond-go/marshal"
	"github.com/ElrondNetwork/elrond-go/process"
	blproc "github.com/ElrondNetwork/elrond-go/process/block"
	"github.com/ElrondNetwork/elrond-go/process/block/bootstrapStorage"
	"github.com/ElrondNetwork/elrond-go/process/mock"
	"github.com/ElrondNetwork/elrond-go/testscommon"
	"github.com/ElrondNetwork/elrond-go/testscommon/dblookupext"
	"github.com/ElrondNetwork/elrond-go/testscommon/genericMocks"
	"verif/internal/vk"
)

var (
	msh = &marshal.GogoProtoMarshalizer{}
	hsh = blake2b.NewBlake2b()
)

type blockProcessor interface {
	ProcessBlock(header data.HeaderHandler, body data.BodyHandler, haveTime func() time.Duration) error
}

func baseArgs(self uint32) blproc.ArgBaseProcessor {
	coord := mock.NewMultiShardsCoordinatorMock(3)
	coord.CurrentShard = self
	var chain data.ChainHandler
	if self == core.MetachainShardId {
		c, _ := blockchain.NewMetaChain(&mock.AppStatusHandlerStub{})
		_ = c.SetGenesisHeader(&block.MetaBlock{Nonce: 0})
		chain = c
	} else {
		c, _ := blockchain.NewBlockChain(&mock.AppStatusHandlerStub{})
		_ = c.SetGenesisHeader(&block.Header{Nonce: 0, ShardID: self})
		chain = c
	}
	core1 := &mock.CoreComponentsMock{IntMarsh: msh, Hash: hsh, UInt64ByteSliceConv: &mock.Uint64ByteSliceConverterMock{}, StatusField: &mock.AppStatusHandlerStub{}, RoundField: &mock.RoundHandlerMock{}}
	dataC := &mock.DataComponentsMock{Storage: genericMocks.NewChainStorerMock(0), DataPool: testscommon.NewPoolsHolderMock(), BlockChain: chain}
	boot := &mock.BootstrapComponentsMock{Coordinator: coord, HdrIntegrityVerifier: &mock.HeaderIntegrityVerifierStub{}}
	stat := &mock.StatusComponentsMock{Indexer: &mock.IndexerMock{}, TPSBenchmark: &testscommon.TpsBenchmarkMock{}}
	hv, _ := blproc.NewHeaderValidator(blproc.ArgsHeaderValidator{Hasher: hsh, Marshalizer: msh})
	zero := func() *big.Int { return big.NewInt(0) }
	// genesis headers (the first metablock a processor creates lists the genesis shard headers, fees included)
	start := map[uint32]data.HeaderHandler{0: &block.Header{ShardID: 0, AccumulatedFees: zero(), DeveloperFees: zero()}, 1: &block.Header{ShardID: 1, AccumulatedFees: zero(), DeveloperFees: zero()},
		2: &block.Header{ShardID: 2, AccumulatedFees: zero(), DeveloperFees: zero()}, core.MetachainShardId: &block.MetaBlock{}}
	stub := func() *testscommon.AccountsStub {
		return &testscommon.AccountsStub{JournalLenCalled: func() int { return 0 }, RevertToSnapshotCalled: func(int) error { return nil },
			RootHashCalled: func() ([]byte, error) { return []byte("rootHash"), nil }, CommitCalled: func() ([]byte, error) { return nil, nil }}
	}
	adb := map[state.AccountsDbIdentifier]state.AccountsAdapter{state.UserAccountsState: stub(), state.PeerAccountsState: stub()}
	return blproc.ArgBaseProcessor{CoreComponents: core1, DataComponents: dataC, BootstrapComponents: boot, StatusComponents: stat, Config: config.Config{}, AccountsDB: adb,
		ForkDetector:     &mock.ForkDetectorMock{ProbableHighestNonceCalled: func() uint64 { return 0 }, GetHighestFinalBlockNonceCalled: func() uint64 { return 0 }},
		NodesCoordinator: mock.NewNodesCoordinatorMock(), FeeHandler: &mock.FeeAccumulatorStub{}, RequestHandler: &testscommon.RequestHandlerStub{}, BlockChainHook: &mock.BlockChainHookHandlerMock{},
		TxCoordinator: &mock.TransactionCoordinatorMock{}, EpochStartTrigger: &mock.EpochStartTriggerStub{}, HeaderValidator: hv,
		BootStorer:   &mock.BoostrapStorerMock{PutCalled: func(int64, bootstrapStorage.BootstrapData) error { return nil }},
		BlockTracker: mock.NewBlockTrackerMock(boot.ShardCoordinator(), start), BlockSizeThrottler: &mock.BlockSizeThrottlerStub{}, Version: "v", HistoryRepository: &dblookupext.HistoryRepositoryStub{}, EpochNotifier: &mock.EpochNotifierStub{}}
}

func newShardProc() (blockProcessor, error) {
	return blproc.NewShardProcessor(blproc.ArgShardProcessor{ArgBaseProcessor: baseArgs(0)})
}

func newMetaProc() (blockProcessor, error) {
	return blproc.NewMetaProcessor(blproc.ArgMetaProcessor{ArgBaseProcessor: baseArgs(core.MetachainShardId),
		SCToProtocol: &mock.SCToProtocolStub{}, PendingMiniBlocksHandler: &mock.PendingMiniBlocksHandlerStub{}, EpochStartDataCreator: &mock.EpochStartDataCreatorStub{},
		EpochEconomics: &mock.EpochEconomicsStub{}, EpochRewardsCreator: &mock.EpochRewardsCreatorStub{}, EpochValidatorInfoCreator: &mock.EpochValidatorInfoCreatorStub{},
		ValidatorStatisticsProcessor: &mock.ValidatorStatisticsProcessorStub{}, EpochSystemSCProcessor: &mock.EpochStartSystemSCStub{}})
}

// ---------------------------------------------------------------------------------------
// universe

type mbInfo struct {
	name string
	mb   *block.MiniBlock
	hash []byte
}

var shardSet = []uint32{0, 1, core.MetachainShardId, core.AllShardId}
var typeSet = []block.Type{block.TxBlock, block.StateBlock, block.PeerBlock, block.SmartContractResultBlock, block.InvalidBlock, block.ReceiptBlock, block.RewardsBlock}

func mkMb(name string, txs []string, send, recv uint32, t block.Type) mbInfo {
	mb := &block.MiniBlock{SenderShardID: send, ReceiverShardID: recv, Type: t}
	for _, s := range txs {
		mb.TxHashes = append(mb.TxHashes, []byte(s))
	}
	h, err := core.CalculateHash(msh, hsh, mb)
	if err != nil {
		panic(err)
	}
	return mbInfo{name, mb, h}
}

// universe: the base universe (all miniblocks sent by the processor's own shard, so that a matching pair runs
// through the whole ProcessBlock with nil)
func universe(self uint32) []mbInfo {
	other1, other2 := uint32(1), uint32(2)
	return []mbInfo{
		mkMb("A", []string{"txA1"}, self, self, block.TxBlock),
		mkMb("B", []string{"txB1", "txB2"}, self, other1, block.TxBlock),
		mkMb("C", []string{"txA1"}, self, self, block.SmartContractResultBlock), // retyped copy of A
		mkMb("D", []string{"txD1", "txD2", "txD3"}, self, other2, block.SmartContractResultBlock),
	}
}

// extUniverse: miniblocks with sender/receiver in {0, 1, META, ALL} and any block type. Index 0 is a fixed universe
// with the protocol's special miniblocks (validator info PeerBlock META->ALL, RewardsBlock META->shard); the others
// are drawn from rng. Later steps of ProcessBlock (cross-shard verification) may reject such blocks for their own
// reasons, so only the correlation verdict is judged for these universes.
func extUniverse(idx int, rng *vk.Rand) []mbInfo {
	if idx == 0 {
		return []mbInfo{
			mkMb("A", []string{"valInfo1", "valInfo2"}, core.MetachainShardId, core.AllShardId, block.PeerBlock),
			mkMb("B", []string{"reward1"}, core.MetachainShardId, 1, block.RewardsBlock),
			mkMb("C", []string{"valInfo1", "valInfo2"}, core.MetachainShardId, core.AllShardId, block.TxBlock), // retyped copy of A
			mkMb("D", []string{"txD1", "txD2", "txD3"}, 1, 0, block.InvalidBlock),
		}
	}
	var u []mbInfo
	names := []string{"A", "B", "C", "D"}
	for i := 0; i < 4; i++ {
		var txs []string
		for k := 0; k <= rng.Intn(3); k++ {
			txs = append(txs, fmt.Sprintf("tx%s%d-%d", names[i], k, idx))
		}
		send, recv, t := shardSet[rng.Intn(4)], shardSet[rng.Intn(4)], typeSet[rng.Intn(len(typeSet))]
		if i == 0 && rng.Bool() {
			recv = core.AllShardId
		}
		if i == 2 { // retyped / re-addressed copy of A
			a := u[0].mb
			txs = nil
			for _, h := range a.TxHashes {
				txs = append(txs, string(h))
			}
			send, recv, t = a.SenderShardID, a.ReceiverShardID, a.Type
			switch rng.Intn(3) {
			case 0:
				t = otherType(t, rng.Intn(6))
			case 1:
				recv = otherShard(recv, rng.Intn(3))
			default:
				send = otherShard(send, rng.Intn(3))
			}
		}
		u = append(u, mkMb(names[i], txs, send, recv, t))
	}
	return u
}

func otherShard(s uint32, k int) uint32 {
	var o []uint32
	for _, x := range shardSet {
		if x != s {
			o = append(o, x)
		}
	}
	return o[k%len(o)]
}

func otherType(t block.Type, k int) block.Type {
	var o []block.Type
	for _, x := range typeSet {
		if x != t {
			o = append(o, x)
		}
	}
	return o[k%len(o)]
}

type entry struct {
	name string // e.g. "A", "A!type", "Z"
	mbh  block.MiniBlockHeader
}

// entries: per miniblock the exact header entry and four inexact ones on the correct hash; k varies the wrong value
func entries(u []mbInfo, self uint32, k int) []entry {
	var out []entry
	for i, m := range u {
		ok := block.MiniBlockHeader{Hash: m.hash, SenderShardID: m.mb.SenderShardID, ReceiverShardID: m.mb.ReceiverShardID, TxCount: uint32(len(m.mb.TxHashes)), Type: m.mb.Type}
		out = append(out, entry{m.name, ok})
		t := ok
		t.Type = otherType(ok.Type, k+i)
		out = append(out, entry{m.name + "!type", t})
		rc := ok
		rc.ReceiverShardID = otherShard(ok.ReceiverShardID, k+i)
		out = append(out, entry{m.name + "!recv", rc})
		sn := ok
		sn.SenderShardID = otherShard(ok.SenderShardID, k+i+1)
		out = append(out, entry{m.name + "!send", sn})
		tc := ok
		tc.TxCount++
		out = append(out, entry{m.name + "!txcount", tc})
	}
	z := block.MiniBlockHeader{Hash: hsh.Compute("not a miniblock of the universe"), SenderShardID: self, ReceiverShardID: self, TxCount: 1, Type: block.TxBlock}
	out = append(out, entry{"Z", z})
	return out
}

// lists enumerates all lists of length <= maxLen over n symbols
func lists(n, maxLen int) [][]int {
	out := [][]int{{}}
	prev := [][]int{{}}
	for l := 1; l <= maxLen; l++ {
		var cur [][]int
		for _, p := range prev {
			for s := 0; s < n; s++ {
				q := append(append([]int(nil), p...), s)
				cur = append(cur, q)
			}
		}
		out = append(out, cur...)
		prev = cur
	}
	return out
}

// reference predicate + mismatch class
func reference(hdr []entry, body []mbInfo) (match bool, class string) {
	if len(hdr) != len(body) {
		return false, "count"
	}
	used := make([]bool, len(hdr))
	full := true
	for _, b := range body {
		found := false
		for i, e := range hdr {
			if used[i] {
				continue
			}
			h := e.mbh
			if string(h.Hash) == string(b.hash) && h.SenderShardID == b.mb.SenderShardID && h.ReceiverShardID == b.mb.ReceiverShardID &&
				h.Type == b.mb.Type && h.TxCount == uint32(len(b.mb.TxHashes)) {
				used[i] = true
				found = true
				break
			}
		}
		if !found {
			full = false
		}
	}
	if full {
		return true, ""
	}
	// classify: compare the hash multisets first
	hc, bc := map[string]int{}, map[string]int{}
	for _, e := range hdr {
		hc[string(e.mbh.Hash)]++
	}
	for _, b := range body {
		bc[string(b.hash)]++
	}
	same := true
	for k, v := range bc {
		if hc[k] != v {
			same = false
		}
	}
	if same {
		// attribute mismatch on a listed hash
		var kinds []string
		for _, e := range hdr {
			if i := strings.Index(e.name, "!"); i >= 0 {
				kinds = append(kinds, e.name[i+1:])
			}
		}
		for _, k := range []string{"type", "recv", "send", "txcount"} {
			for _, x := range kinds {
				if x == k {
					if k == "recv" || k == "send" {
						return false, "shard"
					}
					return false, k
				}
			}
		}
		return false, "attribute"
	}
	for k, v := range bc {
		if v > hc[k] && hc[k] >= 1 {
			return false, "duplicate-in-body"
		}
	}
	return false, "missing"
}

func main() {
	logger.SetLogLevel("*:NONE")
	r := vk.Start("C19")
	r.Rule("base universe of 4 miniblocks sent by the processor's own shard (A, B to another shard, C = A retyped, D three txs) and 21 header entries (per miniblock: exact, wrong type, wrong receiver, wrong sender, wrong tx count on the correct hash; plus an unknown hash); quick: every header list of <= 3 entries with at most one inexact entry (1054) plus a seed-chosen sample of 400 lists with several inexact entries x every body list of <= 3 miniblocks (85), thorough: all 9724 header lists x 85 bodies; through the real ProcessBlock of a shard processor and of a meta processor, with a normal header and with a START-OF-EPOCH header (meta: non-empty EpochStart.LastFinalizedHeaders, i.e. the processEpochStartMetaBlock path; shard: EpochStartMetaHash set). Extended universes (a fixed one with a validator-info PeerBlock META->ALL, a RewardsBlock META->1, an InvalidBlock 1->0, and seed-chosen ones with sender/receiver in {0,1,META,ALL} and all seven block types): header lists with at most one inexact entry x 85 bodies, shard normal + meta normal + meta start-of-epoch. Non-trivial = non-empty header or body; shape = (processor, path, universe kind, header length, body length, number of inexact entries, reference verdict/class, observed verdict).")
	r.Assume("processors are assembled from the repository's mock packages (transaction coordinator, accounts, trackers, epoch start creators are stubs); the correlation check is the first body-dependent step of ProcessBlock",
		"an error other than ErrHeaderBodyMismatch/ErrNilMiniBlock after the correlation step counts as 'passed the correlation check' (later steps such as the cross-shard miniblock verification may still reject a header whose entries name other shards)",
		"base universe: a matching pair must return nil; extended universes (foreign senders): only the correlation verdict is judged",
		"miniblock hashes are collision free, so a body miniblock has exactly one admissible (sender, receiver, type, tx count)")
	r.Rule("created phase: 32 (thorough 128) long-lived shard / meta processors; per round the processor's own CreateBlock builds the header from a body of the base universe (miniblock objects handed over by the transaction coordinator, real createMiniBlockHeaders), then one or two steps of (operation on the returned body OBJECTS: none, re-order, re-allocate an equal copy, replace / overwrite / swap / re-order / add / remove a tx hash in place, change type / receiver / sender in place, drop a miniblock, list an object twice; then ProcessBlock of the same objects with the header built at the start of the round). Reference = bijection on the content at the time of the call, hashes recomputed by the harness.")
	r.MinShapes(40)

	type procKind struct {
		name string
		self uint32
		mk   func() (blockProcessor, error)
	}
	shardK := procKind{"shard", 0, newShardProc}
	metaK := procKind{"meta", core.MetachainShardId, newMetaProc}

	type plan struct {
		kind    procKind
		soe     bool   // start-of-epoch header
		uname   string // base / ext<i>
		strict  bool   // matching pair must give nil
		u       []mbInfo
		ents    []entry
		headers [][]int
		bodies  [][]int
	}
	var plans []plan
	addPlan := func(k procKind, soe bool, uname string, strict bool, u []mbInfo, entK int, full bool, sample int) {
		ents := entries(u, k.self, entK)
		all := lists(len(ents), 3)
		var hs, rest [][]int
		for _, h := range all {
			bad := 0
			for _, i := range h {
				if strings.Contains(ents[i].name, "!") || ents[i].name == "Z" {
					bad++
				}
			}
			if !full && bad > 1 {
				rest = append(rest, h)
				continue
			}
			hs = append(hs, h)
		}
		if len(rest) > 0 && sample > 0 {
			srng := vk.NewRand(r.Seed*977 + uint64(k.self) + uint64(len(plans)))
			for _, i := range srng.Perm(len(rest))[:sample] {
				hs = append(hs, rest[i])
			}
		}
		plans = append(plans, plan{k, soe, uname, strict, u, ents, hs, lists(len(u), 3)})
	}
	full := !r.Quick()
	addPlan(shardK, false, "base", true, universe(0), 0, full, 400)
	addPlan(metaK, false, "base", true, universe(core.MetachainShardId), 0, full, 400)
	addPlan(metaK, true, "base", true, universe(core.MetachainShardId), 1, full, 100)
	addPlan(shardK, true, "base", true, universe(0), 1, false, 100)
	urng := vk.NewRand(r.Seed*31337 + 19)
	for i := 0; i < r.N(3, 12); i++ {
		u := extUniverse(i, urng)
		name := fmt.Sprintf("ext%d", i)
		addPlan(shardK, false, name, false, u, i, false, 0)
		addPlan(metaK, false, name, false, u, i+1, false, 0)
		addPlan(metaK, true, name, false, u, i+2, false, 0)
	}
	const chunk = 64 // headers per case
	type job struct {
		p      *plan
		lo, hi int
	}
	var jobs []job
	for pi := range plans {
		p := &plans[pi]
		for lo := 0; lo < len(p.headers); lo += chunk {
			hi := lo + chunk
			if hi > len(p.headers) {
				hi = len(p.headers)
			}
			jobs = append(jobs, job{p, lo, hi})
		}
	}
	haveTime := func() time.Duration { return time.Second }

	// created phase (created.go): long-lived processors that build the header themselves
	nCreated := r.N(32, 128)
	createdRounds := r.N(150, 600)
	r.Parallel(len(jobs)+nCreated, func(c *vk.Case) {
		if c.Idx >= len(jobs) {
			if (c.Idx-len(jobs))%2 == 0 {
				createdJob(r, c, 0, "shard", createdRounds)
			} else {
				createdJob(r, c, core.MetachainShardId, "meta", createdRounds)
			}
			return
		}
		j := jobs[c.Idx]
		p := j.p
		proc, err := p.kind.mk()
		if err != nil {
			r.Inconclusive("cannot assemble " + p.kind.name + " processor: " + err.Error())
			return
		}
		path, pathSuffix := "normal", ""
		if p.soe {
			path, pathSuffix = "start-of-epoch", " path=start-of-epoch"
		}
		tag := p.kind.name + "/" + path + "/" + p.uname
		ukind := "base"
		if !p.strict {
			ukind = "ext"
		}
		for hi := j.lo; hi < j.hi; hi++ {
			hl := p.headers[hi]
			hdrEntries := make([]entry, len(hl))
			inexact := 0
			var hnames []string
			for i, x := range hl {
				hdrEntries[i] = p.ents[x]
				hnames = append(hnames, p.ents[x].name)
				if strings.Contains(p.ents[x].name, "!") || p.ents[x].name == "Z" {
					inexact++
				}
			}
			for _, bl := range p.bodies {
				bodyInfos := make([]mbInfo, len(bl))
				var bnames []string
				for i, x := range bl {
					bodyInfos[i] = p.u[x]
					bnames = append(bnames, p.u[x].name)
				}
				mbhs := make([]block.MiniBlockHeader, len(hdrEntries))
				for i, e := range hdrEntries {
					mbhs[i] = e.mbh
					mbhs[i].Hash = append([]byte(nil), e.mbh.Hash...)
				}
				body := &block.Body{}
				for _, b := range bodyInfos {
					cp := *b.mb
					cp.TxHashes = append([][]byte(nil), b.mb.TxHashes...)
					body.MiniBlocks = append(body.MiniBlocks, &cp)
				}
				var hdr data.HeaderHandler
				if p.kind.self == core.MetachainShardId {
					mb := &block.MetaBlock{Nonce: 1, Round: 1, PrevHash: []byte(""), PrevRandSeed: []byte(""), RandSeed: []byte("rs"), Signature: []byte("sig"), PubKeysBitmap: []byte{1},
						RootHash: []byte("rootHash"), MiniBlockHeaders: mbhs, TxCount: uint32(len(bl)),
						AccumulatedFees: big.NewInt(0), DeveloperFees: big.NewInt(0), AccumulatedFeesInEpoch: big.NewInt(0), DevFeesInEpoch: big.NewInt(0)}
					if p.soe {
						mb.EpochStart.LastFinalizedHeaders = []block.EpochStartShardData{{ShardID: 0, HeaderHash: []byte("h0"), RootHash: []byte("r0")}, {ShardID: 1, HeaderHash: []byte("h1"), RootHash: []byte("r1")}, {ShardID: 2, HeaderHash: []byte("h2"), RootHash: []byte("r2")}}
						mb.EpochStart.Economics = block.Economics{TotalSupply: big.NewInt(0), TotalToDistribute: big.NewInt(0), TotalNewlyMinted: big.NewInt(0), RewardsPerBlock: big.NewInt(0), RewardsForProtocolSustainability: big.NewInt(0), NodePrice: big.NewInt(0)}
					}
					hdr = mb
				} else {
					sh := &block.Header{Nonce: 1, Round: 1, PrevHash: []byte(""), PrevRandSeed: []byte(""), RandSeed: []byte("rs"), Signature: []byte("sig"), PubKeysBitmap: []byte{1}, ShardID: 0,
						RootHash: []byte("rootHash"), MiniBlockHeaders: mbhs, TxCount: uint32(len(bl)), AccumulatedFees: big.NewInt(0), DeveloperFees: big.NewInt(0)}
					if p.soe {
						sh.EpochStartMetaHash = []byte("epochStartMetaHash")
					}
					hdr = sh
				}
				perr := proc.ProcessBlock(hdr, body, haveTime)
				r.Eval(1)
				want, class := reference(hdrEntries, bodyInfos)
				rejectedByCorrelation := errors.Is(perr, process.ErrHeaderBodyMismatch) || errors.Is(perr, process.ErrNilMiniBlock)
				obs := "nil"
				switch {
				case rejectedByCorrelation:
					obs = "mismatch-error"
				case perr != nil:
					obs = "later-error"
					r.Count("passed_correlation_then:"+perr.Error(), 1)
				}
				r.Count(p.kind.name+"/"+path+":"+obs, 1)
				if len(hl) == 0 && len(bl) == 0 {
					r.Trivial()
				} else {
					ref := "match"
					if !want {
						ref = class
					}
					r.Shape(fmt.Sprintf("%s %s %s h%d b%d bad%d ref=%s obs=%s", p.kind.name, path, ukind, len(hl), len(bl), inexact, ref, obs))
				}
				detail := map[string]interface{}{"processor": p.kind.name, "path": path, "universe": p.uname, "header_entries": hnames, "body": bnames, "reference_match": want, "mismatch_class": class, "process_block_error": fmt.Sprint(perr)}
				if !p.strict {
					var ud []string
					for _, m := range p.u {
						ud = append(ud, fmt.Sprintf("%s: %d txs %d->%d type %d", m.name, len(m.mb.TxHashes), m.mb.SenderShardID, m.mb.ReceiverShardID, m.mb.Type))
					}
					detail["universe_miniblocks"] = ud
					var ed []string
					for _, e := range hdrEntries {
						ed = append(ed, fmt.Sprintf("%s: %d->%d type %d txcount %d", e.name, e.mbh.SenderShardID, e.mbh.ReceiverShardID, e.mbh.Type, e.mbh.TxCount))
					}
					detail["header_entries_full"] = ed
				}
				if want {
					r.Count("reference_match", 1)
					if rejectedByCorrelation {
						r.Violation(c.Idx, "rejected-match"+pathSuffix, fmt.Sprintf("%s: header [%s] body [%s] match but ProcessBlock returned %v", tag, strings.Join(hnames, ","), strings.Join(bnames, ","), perr), detail)
					} else if perr != nil && p.strict {
						r.Violation(c.Idx, "rejected-match later-step"+pathSuffix, fmt.Sprintf("%s: header [%s] body [%s] match but ProcessBlock returned %v", tag, strings.Join(hnames, ","), strings.Join(bnames, ","), perr), detail)
					}
				} else {
					r.Count("reference_mismatch:"+class, 1)
					if !rejectedByCorrelation {
						r.Violation(c.Idx, "accepted-mismatch class="+class+pathSuffix,
							fmt.Sprintf("%s: header [%s] vs body [%s] (%s) passed the correlation check: ProcessBlock -> %v", tag, strings.Join(hnames, ","), strings.Join(bnames, ","), class, perr), detail)
					}
				}
				if r.NeedSample() && len(hl) == 2 && len(bl) == 2 && inexact == 1 && hi%7 == 0 {
					r.Sample(detail)
				}
			}
		}
	})
	r.Finish()
}
