package main

// Proposer path of C19: one LONG-LIVED processor builds the header out of a body itself (the real CreateBlock:
// createBlockBody with the harness' miniblocks handed over by the transaction coordinator, then
// applyBodyToHeader/createMiniBlockHeaders), the harness then changes the body OBJECTS it got back in place (or
// leaves them alone, or only re-orders / re-allocates them), and the same objects are given to ProcessBlock
// together with the header built before. The oracle is the same reference predicate as in the main phase,
// evaluated on the content the objects have at the moment of the call (hashes recomputed by the harness with the
// real marshalizer and the real blake2b hasher).

import (
	"bytes"
	"errors"
	"fmt"
	"math/big"
	"strings"
	"time"

	"github.com/ElrondNetwork/elrond-go/core"
	"github.com/ElrondNetwork/elrond-go/data"
	"github.com/ElrondNetwork/elrond-go/data/block"
	"github.com/ElrondNetwork/elrond-go/process"
	blproc "github.com/ElrondNetwork/elrond-go/process/block"
	"github.com/ElrondNetwork/elrond-go/process/mock"
	"verif/internal/vk"
)

type blockCreator interface {
	blockProcessor
	CreateBlock(initialHdr data.HeaderHandler, haveTime func() bool) (data.HeaderHandler, data.BodyHandler, error)
}

// feeder is the transaction coordinator of the created phase: it hands the miniblocks chosen by the harness to
// createMiniBlocks (as the real coordinator hands over the miniblocks it filled from the pools)
type feeder struct {
	next block.MiniBlockSlice
}

func newCreator(self uint32, f *feeder) (blockCreator, error) {
	args := baseArgs(self)
	args.TxCoordinator = &mock.TransactionCoordinatorMock{
		CreateMbsAndProcessTransactionsFromMeCalled: func(func() bool) block.MiniBlockSlice { return f.next },
	}
	if self == core.MetachainShardId {
		return blproc.NewMetaProcessor(blproc.ArgMetaProcessor{ArgBaseProcessor: args,
			SCToProtocol: &mock.SCToProtocolStub{}, PendingMiniBlocksHandler: &mock.PendingMiniBlocksHandlerStub{}, EpochStartDataCreator: &mock.EpochStartDataCreatorStub{},
			EpochEconomics: &mock.EpochEconomicsStub{}, EpochRewardsCreator: &mock.EpochRewardsCreatorStub{}, EpochValidatorInfoCreator: &mock.EpochValidatorInfoCreatorStub{},
			ValidatorStatisticsProcessor: &mock.ValidatorStatisticsProcessorStub{}, EpochSystemSCProcessor: &mock.EpochStartSystemSCStub{}})
	}
	return blproc.NewShardProcessor(blproc.ArgShardProcessor{ArgBaseProcessor: args})
}

func deepCopyMb(mb *block.MiniBlock) *block.MiniBlock {
	cp := *mb
	cp.TxHashes = nil
	for _, h := range mb.TxHashes {
		cp.TxHashes = append(cp.TxHashes, append([]byte(nil), h...))
	}
	return &cp
}

// correlates is the reference predicate on plain data: multiset bijection between the header entries and the body
// miniblocks (hash of the CURRENT content, sender, receiver, type, tx count)
func correlates(mbhs []block.MiniBlockHeader, body []*block.MiniBlock) (bool, error) {
	if len(mbhs) != len(body) {
		return false, nil
	}
	used := make([]bool, len(mbhs))
	for _, mb := range body {
		h, err := core.CalculateHash(msh, hsh, mb)
		if err != nil {
			return false, err
		}
		found := false
		for i, e := range mbhs {
			if used[i] {
				continue
			}
			if bytes.Equal(e.Hash, h) && e.SenderShardID == mb.SenderShardID && e.ReceiverShardID == mb.ReceiverShardID && e.Type == mb.Type && e.TxCount == uint32(len(mb.TxHashes)) {
				used[i], found = true, true
				break
			}
		}
		if !found {
			return false, nil
		}
	}
	return true, nil
}

func describeBody(body []*block.MiniBlock) []string {
	var out []string
	for _, mb := range body {
		var txs []string
		for _, h := range mb.TxHashes {
			txs = append(txs, string(h))
		}
		out = append(out, fmt.Sprintf("%d->%d type %d txs [%s]", mb.SenderShardID, mb.ReceiverShardID, mb.Type, strings.Join(txs, ",")))
	}
	return out
}

type inPlaceOp struct {
	name    string
	changes bool // the content of the body differs afterwards
	apply   func(rng *vk.Rand, body *block.Body) bool
}

func pick(rng *vk.Rand, body *block.Body) *block.MiniBlock {
	if len(body.MiniBlocks) == 0 {
		return nil
	}
	return body.MiniBlocks[rng.Intn(len(body.MiniBlocks))]
}

var inPlaceOps = []inPlaceOp{
	{"none", false, func(rng *vk.Rand, body *block.Body) bool { return true }},
	{"reorder-objects", false, func(rng *vk.Rand, body *block.Body) bool {
		n := len(body.MiniBlocks)
		if n < 2 {
			return false
		}
		i := rng.Intn(n)
		j := (i + 1 + rng.Intn(n-1)) % n
		body.MiniBlocks[i], body.MiniBlocks[j] = body.MiniBlocks[j], body.MiniBlocks[i]
		return true
	}},
	{"reallocate-equal-copy", false, func(rng *vk.Rand, body *block.Body) bool {
		if len(body.MiniBlocks) == 0 {
			return false
		}
		i := rng.Intn(len(body.MiniBlocks))
		body.MiniBlocks[i] = deepCopyMb(body.MiniBlocks[i])
		return true
	}},
	{"tx-hash-replaced", true, func(rng *vk.Rand, body *block.Body) bool {
		mb := pick(rng, body)
		if mb == nil || len(mb.TxHashes) == 0 {
			return false
		}
		mb.TxHashes[rng.Intn(len(mb.TxHashes))] = []byte(fmt.Sprintf("txX%d", rng.Intn(1000)))
		return true
	}},
	{"tx-hash-byte-overwritten", true, func(rng *vk.Rand, body *block.Body) bool {
		mb := pick(rng, body)
		if mb == nil || len(mb.TxHashes) == 0 {
			return false
		}
		h := mb.TxHashes[rng.Intn(len(mb.TxHashes))]
		if len(h) == 0 {
			return false
		}
		h[rng.Intn(len(h))] ^= 1 << uint(rng.Intn(8))
		return true
	}},
	{"tx-hashes-swapped-between-miniblocks", true, func(rng *vk.Rand, body *block.Body) bool {
		n := len(body.MiniBlocks)
		if n < 2 {
			return false
		}
		i := rng.Intn(n)
		j := (i + 1 + rng.Intn(n-1)) % n
		a, b := body.MiniBlocks[i], body.MiniBlocks[j]
		if len(a.TxHashes) == 0 || len(b.TxHashes) == 0 || bytes.Equal(a.TxHashes[0], b.TxHashes[0]) {
			return false
		}
		a.TxHashes[0], b.TxHashes[0] = b.TxHashes[0], a.TxHashes[0]
		return true
	}},
	{"tx-order-changed", true, func(rng *vk.Rand, body *block.Body) bool {
		mb := pick(rng, body)
		if mb == nil || len(mb.TxHashes) < 2 || bytes.Equal(mb.TxHashes[0], mb.TxHashes[1]) {
			return false
		}
		mb.TxHashes[0], mb.TxHashes[1] = mb.TxHashes[1], mb.TxHashes[0]
		return true
	}},
	{"tx-added", true, func(rng *vk.Rand, body *block.Body) bool {
		mb := pick(rng, body)
		if mb == nil {
			return false
		}
		mb.TxHashes = append(mb.TxHashes, []byte(fmt.Sprintf("txN%d", rng.Intn(1000))))
		return true
	}},
	{"tx-removed", true, func(rng *vk.Rand, body *block.Body) bool {
		mb := pick(rng, body)
		if mb == nil || len(mb.TxHashes) == 0 {
			return false
		}
		mb.TxHashes = mb.TxHashes[:len(mb.TxHashes)-1]
		return true
	}},
	{"type-changed", true, func(rng *vk.Rand, body *block.Body) bool {
		mb := pick(rng, body)
		if mb == nil {
			return false
		}
		mb.Type = otherType(mb.Type, rng.Intn(6))
		return true
	}},
	{"receiver-changed", true, func(rng *vk.Rand, body *block.Body) bool {
		mb := pick(rng, body)
		if mb == nil {
			return false
		}
		mb.ReceiverShardID = otherShard(mb.ReceiverShardID, rng.Intn(3))
		return true
	}},
	{"sender-changed", true, func(rng *vk.Rand, body *block.Body) bool {
		mb := pick(rng, body)
		if mb == nil {
			return false
		}
		mb.SenderShardID = otherShard(mb.SenderShardID, rng.Intn(3))
		return true
	}},
	{"miniblock-dropped", true, func(rng *vk.Rand, body *block.Body) bool {
		if len(body.MiniBlocks) == 0 {
			return false
		}
		i := rng.Intn(len(body.MiniBlocks))
		body.MiniBlocks = append(body.MiniBlocks[:i:i], body.MiniBlocks[i+1:]...)
		return true
	}},
	{"miniblock-object-listed-twice", true, func(rng *vk.Rand, body *block.Body) bool {
		if len(body.MiniBlocks) == 0 {
			return false
		}
		body.MiniBlocks = append(body.MiniBlocks, body.MiniBlocks[rng.Intn(len(body.MiniBlocks))])
		return true
	}},
}

// createdJob: `rounds` rounds on one processor. Round = CreateBlock from a body of the universe, then up to two
// (in-place operation, ProcessBlock with the header built at the beginning of the round) steps.
func createdJob(r *vk.Run, c *vk.Case, self uint32, kind string, rounds int) {
	rng := c.Rng
	f := &feeder{}
	proc, err := newCreator(self, f)
	if err != nil {
		r.Inconclusive("cannot assemble " + kind + " processor: " + err.Error())
		return
	}
	u := universe(self)
	bodies := lists(len(u), 3)
	haveTime := func() time.Duration { return time.Second }
	for round := 0; round < rounds; round++ {
		bl := bodies[rng.Intn(len(bodies))]
		var given block.MiniBlockSlice
		var bnames []string
		for _, x := range bl {
			given = append(given, deepCopyMb(u[x].mb))
			bnames = append(bnames, u[x].name)
		}
		f.next = given
		var initial data.HeaderHandler
		if self == core.MetachainShardId {
			initial = &block.MetaBlock{Nonce: 1, Round: 1, PrevHash: []byte(""), PrevRandSeed: []byte(""), RandSeed: []byte("rs"), Signature: []byte("sig"), PubKeysBitmap: []byte{1},
				AccumulatedFees: big.NewInt(0), DeveloperFees: big.NewInt(0), AccumulatedFeesInEpoch: big.NewInt(0), DevFeesInEpoch: big.NewInt(0)}
		} else {
			initial = &block.Header{Nonce: 1, Round: 1, PrevHash: []byte(""), PrevRandSeed: []byte(""), RandSeed: []byte("rs"), Signature: []byte("sig"), PubKeysBitmap: []byte{1}, ShardID: 0,
				AccumulatedFees: big.NewInt(0), DeveloperFees: big.NewInt(0)}
		}
		hdr, bh, cerr := proc.CreateBlock(initial, func() bool { return true })
		body, _ := bh.(*block.Body)
		if cerr != nil || hdr == nil || body == nil {
			r.Count("created:create_block_failed", 1)
			r.Inconclusive(fmt.Sprintf("%s CreateBlock with body [%s] failed: %v", kind, strings.Join(bnames, ","), cerr))
			return
		}
		r.Count("created:"+kind+":blocks_created", 1)
		fromProcessor := 0
		for _, mb := range body.MiniBlocks {
			for _, g := range given {
				if mb == g {
					fromProcessor++
					break
				}
			}
		}
		r.Count("created:body_objects_handed_back", fromProcessor)
		entriesNow := func() []block.MiniBlockHeader {
			var src []block.MiniBlockHeader
			switch h := hdr.(type) {
			case *block.Header:
				src = h.MiniBlockHeaders
			case *block.MetaBlock:
				src = h.MiniBlockHeaders
			}
			var out []block.MiniBlockHeader
			for _, h := range src {
				h.Hash = append([]byte(nil), h.Hash...)
				out = append(out, h)
			}
			return out
		}
		listed := entriesNow()
		// the header the processor built must list exactly the body it returned
		ok, err := correlates(listed, body.MiniBlocks)
		r.Eval(1)
		if err != nil {
			r.Inconclusive("harness hash computation failed: " + err.Error())
			return
		}
		if !ok {
			r.Violation(c.Idx, "created-header-does-not-list-created-body processor="+kind, fmt.Sprintf("%s: CreateBlock from [%s] returned a header whose miniblock headers do not match the returned body", kind, strings.Join(bnames, ",")),
				map[string]interface{}{"processor": kind, "given": bnames, "body": describeBody(body.MiniBlocks), "header_entries": fmt.Sprint(listed)})
			continue
		}
		// the body objects are only written BEFORE the first ProcessBlock: ProcessBlock leaves a metrics goroutine
		// behind that still reads the body it was given. A second step re-submits the untouched objects.
		steps := 1 + rng.Intn(2)
		var opsDone []string
		firstChange := "none"
		for step := 0; step < steps; step++ {
			op := inPlaceOp{name: "resubmit-unchanged"}
			before := describeBody(body.MiniBlocks)
			if step == 0 {
				op = inPlaceOps[rng.Intn(len(inPlaceOps))]
				if !op.apply(rng, body) {
					r.Trivial()
					break
				}
			}
			opsDone = append(opsDone, op.name)
			if op.changes && firstChange == "none" {
				firstChange = op.name
			}
			want, err := correlates(listed, body.MiniBlocks)
			if err != nil {
				r.Inconclusive("harness hash computation failed: " + err.Error())
				return
			}
			perr := proc.ProcessBlock(hdr, body, haveTime)
			r.Eval(1)
			rejected := errors.Is(perr, process.ErrHeaderBodyMismatch) || errors.Is(perr, process.ErrNilMiniBlock)
			obs := "nil"
			switch {
			case rejected:
				obs = "mismatch-error"
			case perr != nil:
				obs = "later-error"
				r.Count("created:passed_correlation_then:"+perr.Error(), 1)
			}
			r.Count(fmt.Sprintf("created:%s:op=%s:%s", kind, op.name, obs), 1)
			if want {
				r.Count("created:reference_match", 1)
			} else {
				r.Count("created:reference_mismatch", 1)
			}
			r.Shape(fmt.Sprintf("created %s b%d step%d op=%s ref=%v obs=%s", kind, len(body.MiniBlocks), step, op.name, want, obs))
			detail := map[string]interface{}{"processor": kind, "universe_body": bnames, "operations_since_create_block": append([]string(nil), opsDone...), "body_before_last_operation": before,
				"body_now": describeBody(body.MiniBlocks), "header_entries": fmt.Sprint(listed), "reference_match": want, "process_block_error": fmt.Sprint(perr)}
			if !bytes.Equal([]byte(fmt.Sprint(entriesNow())), []byte(fmt.Sprint(listed))) {
				r.Violation(c.Idx, "header-entries-changed-by-process-block", kind+": ProcessBlock changed the miniblock headers of the header it was given", detail)
				break
			}
			switch {
			case want && rejected:
				r.Violation(c.Idx, "rejected-match path=created", fmt.Sprintf("%s: header built by CreateBlock from [%s], body after %v still matches but ProcessBlock returned %v", kind, strings.Join(bnames, ","), opsDone, perr), detail)
			case want && perr != nil:
				r.Violation(c.Idx, "rejected-match later-step path=created", fmt.Sprintf("%s: header built by CreateBlock from [%s], body after %v still matches but ProcessBlock returned %v", kind, strings.Join(bnames, ","), opsDone, perr), detail)
			case !want && !rejected:
				r.Violation(c.Idx, "accepted-mismatch path=created change="+firstChange,
					fmt.Sprintf("%s: header built by CreateBlock from [%s]; after %v on the body objects the body no longer matches, but ProcessBlock passed the correlation check: %v", kind, strings.Join(bnames, ","), opsDone, perr), detail)
			}
			if r.NeedSample() && !want && step == 0 && round%17 == 0 {
				r.Sample(detail)
			}
		}
	}
}
