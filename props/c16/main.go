// C16 — after an epoch change each validator has exactly one place.
// Monitor shape: invariant over histories. A real nodes coordinator (plain or rater variant, real
// shuffler) is driven through 3-6 consecutive epoch changes with the real EpochStartPrepare /
// EpochStartAction. The body of every change is built from marshalled ShardValidatorInfo records that
// are derived from the configuration the coordinator reports for the previous epoch (eligible stay or
// leave, waiting stay or leave, new registrations, inactive/jailed records of validators that left
// earlier, rarely a leaving record of a key that was never listed). After Prepare and again after
// Action: over GetAllEligibleValidatorsPublicKeys ∪ GetAllWaitingValidatorsPublicKeys of the new epoch
// every key occurs once overall, and GetValidatorWithPublicKey reports the shard it is listed in.
// Half of the changes see a competing epoch start block first (other validator info and randomness, both
// derived from the same previous configuration): either it is replaced before the epoch starts (the
// epoch is prepared twice), or the epoch is started with it and the chain is then reverted to the start
// block of the previous epoch (EpochStartPrepare(previous header, nil) + EpochStartAction(previous
// header), what the epoch start trigger sends on RevertStateToBlock) before the final block is
// prepared. The same oracles apply after every Prepare and Action, of the abandoned block too.
package main

import (
	"fmt"
	"sort"

	logger "github.com/ElrondNetwork/elrond-go-logger"
	"github.com/ElrondNetwork/elrond-go/sharding/mock"
	sg "verif/internal/shufflegen"
	"verif/internal/vk"
)

func main() {
	_ = logger.SetLogLevel("*:NONE")
	r := vk.Start("C16")
	r.Rule("histories of 3-6 consecutive epoch changes on coordinators with 1-3 shards + metachain, group sizes 1-4, eligible 1x-3x group size, waiting 0-4, intra- or cross-shard shuffling, waiting-list fix activating before/at/after the history's epochs, plain or rater variant (ratings below the minimum chance give additional leaving); a quarter of the histories over a boot storer whose Put fails (during one epoch change of the history, or at random); per change a leaving rate of 0/5/15/40/80 %, 0-4 new keys, inactive/jailed records; half of the changes first see a competing epoch start block (other records, ratings and randomness from the same previous configuration) that is either replaced before the epoch starts or started and then reverted to the previous epoch's start block (Prepare(previous header, nil) + Action(previous header)); a transition is non-trivial when the new epoch was installed; distinct = distinct (shards, fix active, cross, rater, #leaving records, #new, #validators that changed shard, step, single/replaced/reverted)")
	r.Assume("validator-info records are consistent with the previous configuration: a listed validator is reported with the shard it is listed in, as eligible/waiting or leaving; keys are never reported twice in one body", "an epoch change that the coordinator refuses (shuffler error or a shard below the group size) ends the history and is counted, not judged")
	r.MinShapes(100)
	n := r.N(2000, 60000)

	r.Parallel(n, func(c *vk.Case) {
		rng := c.Rng
		spec := sg.GenCoord(rng, sg.CoordOpts{MaxShards: 3, MaxCons: 4, MaxEpoch: 2, EpochsAhead: 5})
		// a quarter of the histories run over a boot storer whose Put fails: during one chosen epoch change
		// (Prepare and Action), or at random with probability 1/2 per Put. The coordinator only logs a failed
		// save; all oracles stay in force for every epoch, including the one whose save failed.
		faultMode, faultStep, failNow := "none", 0, false
		faulty := &sg.FaultyStorer{Storer: sg.NewBootStorer()}
		if rng.Chance(1, 4) {
			faultMode = "one-epoch"
			if rng.Chance(1, 3) {
				faultMode = "random"
				frng := rng.Fork()
				faulty.Fail = func() bool { return frng.Bool() }
			} else {
				faulty.Fail = func() bool { return failNow }
			}
			r.Count("histories_with_save_faults_"+faultMode, 1)
		}
		co, err := spec.BuildWith(rng.Fork(), &mock.NodesCoordinatorCacheMock{}, faulty)
		if err != nil {
			r.Violation(c.Idx, "constructor-error", err.Error(), map[string]interface{}{"spec": spec.Dump()})
			return
		}
		steps := 3 + rng.Intn(4)
		if faultMode == "one-epoch" {
			faultStep = 1 + rng.Intn(steps)
		}
		epoch := spec.StartEpoch
		prev, err := sg.ReadConfig(co, epoch)
		if err != nil {
			panic(err)
		}
		var history []interface{}
		goneSet := map[string]bool{}
		modeRng := rng.Fork()
		// the start block of the current epoch (what a revert of the next epoch start goes back to)
		prevHdr := sg.Header(epoch, modeRng.Bytes(32))
		for step := 1; step <= steps; step++ {
			var gone []string
			for k := range goneSet {
				gone = append(gone, k)
			}
			sort.Strings(gone)
			infos := sg.GenInfos(spec, prev, gone, rng)
			newEpoch := epoch + 1
			hdr := sg.Header(newEpoch, rng.Bytes(32))
			body := sg.MakeBody(infos, rng)
			history = append(history, map[string]interface{}{"epoch": newEpoch, "prevRandSeed": vk.Hex(hdr.PrevRandSeed), "validatorInfos": sg.DumpInfos(infos)})
			nLeaving, nNew := 0, 0
			for _, inf := range infos {
				switch inf.List {
				case "leaving":
					nLeaving++
				case "new":
					nNew++
				}
			}

			failNow = step == faultStep
			failedBefore := faulty.Failed
			mode := []string{"single", "single", "replaced-before-start", "reverted-after-start"}[modeRng.Intn(4)]
			class := func() string {
				if faulty.Failed > failedBefore {
					return " class=after-save-fault"
				}
				return ""
			}
			check := func(when string) (*sg.Config, bool) {
				cfg, err := sg.ReadConfig(co, newEpoch)
				if err != nil {
					return nil, false
				}
				detail := func() map[string]interface{} {
					return map[string]interface{}{"spec": spec.Dump(), "history": history, "when": when, "previousConfig": prev.Dump(), "newConfig": cfg.Dump(), "saveFaults": faultMode, "bootStorerPutsRefusedDuringThisChange": faulty.Failed - failedBefore}
				}
				place := map[string]string{}
				shardOf := map[string]uint32{}
				var order []string
				bad := false
				add := func(list string, m map[uint32][]string) {
					ids := make([]uint32, 0, len(m))
					for s := range m {
						ids = append(ids, s)
					}
					sort.Slice(ids, func(i, j int) bool { return ids[i] < ids[j] })
					for _, s := range ids {
						for _, k := range m[s] {
							here := fmt.Sprintf("%s[%s]", list, sg.ShardName(s))
							if p, dup := place[k]; dup {
								if !bad {
									key := "key-in-two-places"
									if p == here {
										key = "key-twice-in-one-list"
									}
									r.Violation(c.Idx, key, fmt.Sprintf("epoch %d (%s): key %x is in %s and in %s", newEpoch, when, k, p, here), detail())
								}
								bad = true
								continue
							}
							place[k] = here
							shardOf[k] = s
							order = append(order, k)
						}
					}
				}
				add("eligible", cfg.Eligible)
				add("waiting", cfg.Waiting)
				r.Eval(1)
				for _, k := range order {
					_, sh, err := co.GetValidatorWithPublicKey([]byte(k))
					r.Eval(1)
					if err != nil {
						r.Violation(c.Idx, "lookup-fails"+class(), fmt.Sprintf("epoch %d (%s): key %x is in %s but GetValidatorWithPublicKey: %v", newEpoch, when, k, place[k], err), detail())
						bad = true
						break
					}
					if sh != shardOf[k] {
						r.Violation(c.Idx, "lookup-reports-other-shard"+class(), fmt.Sprintf("epoch %d (%s): key %x is in %s but GetValidatorWithPublicKey reports shard %s", newEpoch, when, k, place[k], sg.ShardName(sh)), detail())
						bad = true
						break
					}
				}
				r.Count("keys_looked_up", len(order))
				return cfg, !bad
			}

			// a competing epoch start block for the same epoch, abandoned later: derived from the same
			// previous configuration with other leaving/new records, ratings and randomness
			var cfgX *sg.Config
			if mode != "single" {
				xr := modeRng.Fork()
				infosX := sg.GenInfos(spec, prev, gone, xr)
				hdrX := sg.Header(newEpoch, xr.Bytes(32))
				history[len(history)-1].(map[string]interface{})["abandonedBlock"] = map[string]interface{}{"how": mode, "prevRandSeed": vk.Hex(hdrX.PrevRandSeed), "validatorInfos": sg.DumpInfos(infosX)}
				co.EpochStartPrepare(hdrX, sg.MakeBody(infosX, xr))
				var okX bool
				cfgX, okX = check("after EpochStartPrepare of the block that is abandoned later (" + mode + ")")
				if cfgX != nil && !okX {
					return
				}
				if cfgX == nil {
					r.Count("abandoned_block_refused", 1)
				} else if mode == "replaced-before-start" {
					r.Count("epochs_prepared_twice_before_their_start", 1)
				} else {
					co.EpochStartAction(hdrX)
					if c2, ok2 := check("after EpochStartAction of the block that is abandoned later"); c2 != nil && !ok2 {
						return
					}
					// revert to the start block of the previous epoch, as the trigger notifies it
					co.EpochStartPrepare(prevHdr, nil)
					co.EpochStartAction(prevHdr)
					r.Count("epochs_started_then_reverted_and_prepared_again", 1)
				}
			}
			co.EpochStartPrepare(hdr, body)
			cfg, ok := check("after EpochStartPrepare")
			if cfg == nil {
				r.Count("epoch_change_refused", 1)
				r.Trivial()
				break
			}
			if !ok {
				return
			}
			co.EpochStartAction(hdr)
			cfg, ok = check("after EpochStartAction")
			if cfg == nil {
				r.Violation(c.Idx, "config-vanished", fmt.Sprintf("epoch %d readable after Prepare but not after Action", newEpoch), map[string]interface{}{"spec": spec.Dump(), "history": history})
				return
			}
			if !ok {
				return
			}
			// bookkeeping for the next step and for the evidence
			oldShard := map[string]uint32{}
			for s, l := range prev.Eligible {
				for _, k := range l {
					oldShard[k] = s
				}
			}
			for s, l := range prev.Waiting {
				for _, k := range l {
					oldShard[k] = s
				}
			}
			now := map[string]uint32{}
			for s, l := range cfg.Eligible {
				for _, k := range l {
					now[k] = s
				}
			}
			for s, l := range cfg.Waiting {
				for _, k := range l {
					now[k] = s
				}
			}
			moved, left := 0, 0
			for k, s := range oldShard {
				if ns, still := now[k]; !still {
					goneSet[k] = true
					left++
				} else if ns != s {
					moved++
				}
			}
			for k := range now {
				delete(goneSet, k)
			}
			fix := newEpoch >= spec.FixEpoch
			if cfgX != nil {
				// how the abandoned block and the final one differ: validators placed in different shards, and
				// leaving records of the final block for validators the abandoned block had moved elsewhere
				shardX := map[string]uint32{}
				for s, l := range cfgX.Eligible {
					for _, k := range l {
						shardX[k] = s
					}
				}
				for s, l := range cfgX.Waiting {
					for _, k := range l {
						shardX[k] = s
					}
				}
				diff := 0
				for k, s := range now {
					if sx, in := shardX[k]; in && sx != s {
						diff++
					}
				}
				lvMoved := 0
				for _, inf := range infos {
					if sx, in := shardX[inf.Key]; in && inf.List == "leaving" && sx != inf.Shard {
						lvMoved++
					}
				}
				r.Count("validators_placed_in_another_shard_than_by_the_abandoned_block", diff)
				r.Count("leaving_records_of_validators_the_abandoned_block_had_moved", lvMoved)
				if mode == "reverted-after-start" && fix && spec.Cross {
					r.Count("leaving_records_of_validators_the_reverted_start_had_moved_fix_on", lvMoved)
				}
			}
			r.Shape(fmt.Sprintf("n%d fix%v x%v rater%v lv%d new%d moved%d step%d %s", spec.NbShards, fix, spec.Cross, spec.Rater, nLeaving, nNew, moved, step, mode))
			r.Count("epoch_changes_installed", 1)
			if n := faulty.Failed - failedBefore; n > 0 {
				r.Count("epoch_changes_with_refused_saves", 1)
				r.Count("boot_storer_puts_refused", n)
				r.Count("validators_that_changed_shard_in_a_change_with_refused_saves", moved)
			}
			r.Count("validators_that_changed_shard", moved)
			r.Count("validators_that_left", left)
			r.Count("leaving_records", nLeaving)
			r.Count("new_records", nNew)
			if fix {
				r.Count("changes_with_waiting_list_fix", 1)
			}
			if r.NeedSample() && step == 2 && spec.NbShards == 1 && moved > 0 && left > 0 {
				r.Sample(map[string]interface{}{"spec": spec.Dump(), "history": history, "configAfterLastChange": cfg.Dump()})
			}
			prev = cfg
			epoch = newEpoch
			prevHdr = hdr
		}
	})
	if r.ReplayCase < 0 && (r.Counter("validators_placed_in_another_shard_than_by_the_abandoned_block") == 0 || r.Counter("epochs_started_then_reverted_and_prepared_again") == 0) {
		r.Inconclusive("no epoch was prepared from two competing blocks that place a validator differently, or none was reverted after its start")
	}
	if r.Counter("validators_that_changed_shard") == 0 && r.ReplayCase < 0 {
		r.Inconclusive("no validator ever changed shard: the lookup half of the oracle saw nothing")
	}
	r.Finish()
}
