module verif

go 1.17

require (
	github.com/ElrondNetwork/elrond-go v1.1.59-0.20210526130950-2a93e2e11c39
	github.com/anishathalye/porcupine v1.3.0
)

require (
	github.com/ElrondNetwork/elrond-go-logger v1.0.4 // indirect
	github.com/ElrondNetwork/elrond-vm-common v1.0.0 // indirect
	github.com/denisbrodbeck/machineid v1.0.1 // indirect
	github.com/gogo/protobuf v1.3.2 // indirect
	github.com/golang/protobuf v1.5.2 // indirect
	github.com/mr-tron/base58 v1.2.0 // indirect
	github.com/pelletier/go-toml v1.9.0 // indirect
	google.golang.org/protobuf v1.26.0 // indirect
)

replace github.com/ElrondNetwork/elrond-go => /repo

replace github.com/gogo/protobuf => github.com/ElrondNetwork/protobuf v1.3.2

replace github.com/ElrondNetwork/arwen-wasm-vm/v1_3 v1.3.19 => github.com/ElrondNetwork/arwen-wasm-vm v1.3.20-0.20210709090429-e03405ee6e0b
