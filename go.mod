module verif

go 1.17

require (
	github.com/ElrondNetwork/elrond-go v1.1.59-0.20210526130950-2a93e2e11c39
	github.com/ElrondNetwork/elrond-go-logger v1.0.4
	github.com/anishathalye/porcupine v1.3.0
)

require (
	github.com/ElrondNetwork/concurrent-map v0.1.3 // indirect
	github.com/ElrondNetwork/elrond-vm-common v1.0.0 // indirect
	github.com/btcsuite/btcutil v1.0.3-0.20201208143702-a53e38424cce // indirect
	github.com/denisbrodbeck/machineid v1.0.1 // indirect
	github.com/gogo/protobuf v1.3.2 // indirect
	github.com/golang/protobuf v1.5.2 // indirect
	github.com/golang/snappy v0.0.1 // indirect
	github.com/hashicorp/golang-lru v0.5.4 // indirect
	github.com/herumi/bls-go-binary v1.0.0 // indirect
	github.com/mitchellh/mapstructure v1.4.1 // indirect
	github.com/mr-tron/base58 v1.2.0 // indirect
	github.com/pelletier/go-toml v1.9.0 // indirect
	github.com/pkg/errors v0.9.1 // indirect
	github.com/shirou/gopsutil v0.0.0-20190901111213-e4ec7b275ada // indirect
	github.com/syndtr/goleveldb v1.0.1-0.20190318030020-c3a204f8e965 // indirect
	golang.org/x/crypto v0.0.0-20210322153248-0c34fe9e7dc2 // indirect
	golang.org/x/sys v0.0.0-20210426080607-c94f62235c83 // indirect
	google.golang.org/protobuf v1.26.0 // indirect
)

replace github.com/ElrondNetwork/elrond-go => /repo

replace github.com/gogo/protobuf => github.com/ElrondNetwork/protobuf v1.3.2

replace github.com/ElrondNetwork/arwen-wasm-vm/v1_3 v1.3.19 => github.com/ElrondNetwork/arwen-wasm-vm v1.3.20-0.20210709090429-e03405ee6e0b
