#!/bin/bash
# MANIFEST.setup_cmd: warm the Go build cache for every harness (offline, files on disk only).
set -u
cd "$(dirname "$(readlink -f "$0")")"
export GOFLAGS=-mod=mod GOPROXY=off GOSUMDB=off GOTOOLCHAIN=local
mkdir -p .build evidence replays
fail=0
norace=""; race=""
for d in props/*/; do
  lc="$(basename "$d")"
  if [ -f "$d/RACE" ]; then race="$race $lc"; else norace="$norace $lc"; fi
done
for lc in $norace; do
  go build -tags verif -o ".build/$lc" "./props/$lc" > ".build/$lc.build.log" 2>&1 || { echo "build failed: $lc"; fail=1; }
done
for lc in $race; do
  go build -tags verif -race -o ".build/$lc-race" "./props/$lc" > ".build/$lc.build.log" 2>&1 || { echo "build failed: $lc"; fail=1; }
done
exit $fail
