#!/bin/bash
# Applies every seeded change to /repo itself (git apply), runs the property's quick check through check.sh,
# and undoes the change straight afterwards (git checkout). Records the outcome in seeded/<name>/meta.json.
# Nothing else may use /repo while this runs.
cd /verif
for d in seeded/*/; do
  name=$(basename $d); id=${name%%-*}
  if ! git -C /repo apply --check "$PWD/$d/patch.diff" 2>/dev/null; then echo "$name apply-failed"; continue; fi
  git -C /repo apply "$PWD/$d/patch.diff"
  out=$(VERIF_SEED=1 ./check.sh $id quick 2>&1); rc=$?
  git -C /repo checkout -- . 
  viol=$(echo "$out" | grep -c '^VIOLATION')
  first=$(echo "$out" | grep -m1 '^VIOLATION' )
  python3 - "$d/meta.json" "$rc" "$viol" "$first" <<'PY'
import json,sys
p=sys.argv[1]; m=json.load(open(p))
m['in_repo_run']={"how":"git -C /repo apply patch.diff; ./check.sh <id> quick (VERIF_SEED=1); git -C /repo checkout -- .","exit_code":int(sys.argv[2]),"violation_lines":int(sys.argv[3]),"first_violation_line":sys.argv[4]}
json.dump(m,open(p,'w'),indent=1)
PY
  echo "$name rc=$rc violations=$viol"
  rm -rf replays/$id
done
git -C /repo status --short | grep -v '^??'
