#!/usr/bin/env python3
# validates MANIFEST.json and every evidence file against the schemas (run with python3-vt)
import json,sys,glob,os
import jsonschema
ok=True
m=json.load(open('/verif/MANIFEST.json'))
try:
    jsonschema.validate(m,json.load(open('/root/.vp/MANIFEST.schema.json'))); print("MANIFEST ok, checks:",len(m['checks']),"n/a:",len(m.get('not_applicable',[])))
except Exception as e:
    ok=False; print("MANIFEST INVALID",e)
es=json.load(open('/root/.vp/EVIDENCE.schema.json'))
ids=set(c['property_id'] for c in m['checks'])
for c in m['checks']:
    f=c['evidence_file']
    f=f if f.startswith('/') else os.path.join('/verif',f)
    if not os.path.exists(f): print("missing evidence",f); ok=False; continue
    try:
        e=json.load(open(f)); jsonschema.validate(e,es)
        if e['level']!=c['level_claimed']['category']: print("level mismatch",f); ok=False
    except Exception as ex:
        ok=False; print("EVIDENCE INVALID",f,str(ex)[:300])
props=[json.loads(l)['id'] for l in open('/verif/properties.jsonl')]
na=set(x['property_id'] for x in m.get('not_applicable',[]))
for p in props:
    if p not in ids and p not in na: print("property neither claimed nor n/a:",p); ok=False
sys.exit(0 if ok else 1)
