#!/usr/bin/env python3
# Regenerates /verif/MANIFEST.json from tools/registry.json (one entry per claimed property).
import json,os
reg=json.load(open('/verif/tools/registry.json'))
props=[json.loads(l) for l in open('/verif/properties.jsonl')]
hooks_commits=[]
hc='/verif/MANIFEST.hooks'
if os.path.exists(hc):
    for l in open(hc):
        l=l.strip()
        if l and not l.startswith('#'): hooks_commits.append(l.split()[0])
checks=[];na=[]
for p in props:
    i=p['id']; e=reg.get(i)
    if e and e.get('ready'):
        checks.append({
          "property_id":i,
          "quick_cmd":"./check.sh %s quick"%i,
          "thorough_cmd":"./check.sh %s thorough"%i,
          "evidence_file":"/verif/evidence/%s.json"%i,
          "replay_cmd_template":"./check.sh %s quick --replay {path}"%i,
          "engine":"go-harness",
          "level_claimed":{"category":"exploration","text":e['text'],"design_ref":e.get('design_ref',"DESIGN.md section 5, "+i)},
          "level_note":e['note'],
          "technique":e['technique']})
    else:
        na.append({"property_id":i,"reason":(e or {}).get('reason',"runtime monitor designed (DESIGN.md section 5) but its check is not built/validated yet; not claimed")})
m={"version":1,
 "setup_cmd":"./setup.sh",
 "hooks":{"guard":"verif (Go build tag)","enable":"go build -tags verif (done by check.sh for every harness; hook files are //go:build verif)",
          "baseline_off_cmd":"cd /repo && GOFLAGS=-mod=mod GOPROXY=off GOSUMDB=off GOTOOLCHAIN=local go test -vet=off -count=1 -timeout 25m ./...",
          "source_commits":hooks_commits,"add_only":True},
 "engines":[{"name":"go-harness","path":"/verif/check.sh","serves_properties":[c['property_id'] for c in checks],
   "kind_free_text":"one Go main package per property (props/cNN) linked against /repo's working tree via a module replace; runs the real code under generated hostile workloads while a reference-model / invariant / conservation / history oracle observes; -race where the harness has a concurrent phase; porcupine for recorded concurrent histories"}],
 "checks":checks,
 "not_applicable":na,
 "notes":"Technique family: runtime monitoring and sanitizers. See DESIGN.md. known_findings.json lists recorded findings and fixed defects."}
json.dump(m,open('/verif/MANIFEST.json','w'),indent=1)
print("checks",len(checks),"not_applicable",len(na))
