#!/bin/bash
# tools/mutcheck.sh <Cnn> <mutant dir with patch.diff, meta.json, demo> [check ids ...]
# Confirms an independently produced mutation in a scratch worktree (never in /repo):
#   demo passes on clean tree, fails with the patch; touched packages' tests still pass;
#   then runs the quick check(s) against the patched worktree and reports whether they fire.
set -u
ID="$1"; MD="$(readlink -f "$2")"; shift; shift
CHECKS="${*:-$ID}"
export GOFLAGS=-mod=mod GOPROXY=off GOSUMDB=off GOTOOLCHAIN=local
tag="$ID-$(basename "$MD")-$$"
WT=/tmp/mc/wt-$tag; OUT=/tmp/mc/out-$tag
rm -rf "$OUT"; mkdir -p /tmp/mc "$OUT"
git -C /repo worktree remove --force "$WT" >/dev/null 2>&1
git -C /repo worktree add --detach "$WT" HEAD >/dev/null 2>&1 || { echo "worktree failed"; exit 3; }
cleanup(){ git -C /repo worktree remove --force "$WT" >/dev/null 2>&1; rm -rf "$WT"; }
trap cleanup EXIT
# uncommitted hook files
( cd /repo && git ls-files --others --exclude-standard | grep 'verif_hooks' ) | while read f; do mkdir -p "$WT/$(dirname "$f")"; cp "/repo/$f" "$WT/$f"; done
demofile=$(python3 -c "import json;m=json.load(open('$MD/meta.json'));print(m['demo']['file'])")
demodir=$(python3 -c "import json;m=json.load(open('$MD/meta.json'));print(m['demo']['package_dir'])")
democmd=$(python3 -c "import json;m=json.load(open('$MD/meta.json'));print(m['demo']['command'])")
res="{}"
cd "$WT"
if ! git apply --check "$MD/patch.diff" 2>"$OUT/apply.err"; then echo "RESULT $tag patch-does-not-apply"; cat "$OUT/apply.err"; exit 3; fi
cp "$MD/$demofile" "$WT/$demodir/" 2>/dev/null || cp "$MD/$(basename "$demofile")" "$WT/$demodir/"
( cd "$WT" && eval "$democmd" ) > "$OUT/demo_clean.log" 2>&1; dc=$?
git apply "$MD/patch.diff"
( cd "$WT" && eval "$democmd" ) > "$OUT/demo_mut.log" 2>&1; dm=$?
# existing tests of touched packages (demo file removed first)
rm -f "$WT/$demodir/$(basename "$demofile")"
pkgs=$(git diff --name-only | xargs -n1 dirname | sort -u | sed 's#^#./#' | tr '\n' ' ')
go test -count=1 $pkgs > "$OUT/pkgtests.log" 2>&1; pt=$?
echo "demo_clean_rc=$dc demo_mut_rc=$dm pkgtests_rc=$pt pkgs=$pkgs"
cd /verif
sed "s#=> /repo#=> $WT#" go.mod > "$OUT/go.mod"; cp go.sum "$OUT/go.sum"
cp known_findings.json "$OUT/"
for c in $CHECKS; do
  lc=$(echo $c | tr A-Z a-z)
  RACE=""; [ -f props/$lc/RACE ] && RACE="-race"
  if ! go build -modfile="$OUT/go.mod" -tags verif $RACE -o "$OUT/$lc.bin" ./props/$lc > "$OUT/$lc.build.log" 2>&1; then echo "CHECK $c build-failed"; tail -5 "$OUT/$lc.build.log"; continue; fi
  SCR=$(mktemp -d /tmp/mc/scr-XXXXXX)
  t0=$(date +%s)
  ( export VERIF_DIR="$OUT" VERIF_TIER=${MUT_TIER:-quick} VERIF_SEED=${VERIF_SEED:-1} TMPDIR="$SCR" VERIF_SCRATCH="$SCR"; [ -n "$RACE" ] && export VERIF_RACE_LOG="$SCR/race" GORACE="halt_on_error=0 exitcode=0 log_path=$SCR/race history_size=3"; timeout -s QUIT 1200 "$OUT/$lc.bin" > "$OUT/$lc.out" 2> "$OUT/$lc.err" ); rc=$?
  t1=$(date +%s)
  rm -rf "$SCR"
  crash=""; grep -qE '^(fatal error:|panic:)' "$OUT/$lc.err" && crash=" (process crashed: $(grep -m1 -E '^(fatal error:|panic:)' "$OUT/$lc.err"))"
  echo "CHECK $c rc=$rc time=$((t1-t0))s$crash"
  grep -E "key=|KNOWN-FINDING|INCONCLUSIVE|SUMMARY" "$OUT/$lc.out" | sort | uniq -c | sort -rn | head -6
done
