#!/usr/bin/env python3
# prints the brief for an independent mutation agent for one property (contains nothing from /verif except the property record)
import json,sys
pid=sys.argv[1]
for l in open('/verif/properties.jsonl'):
    p=json.loads(l)
    if p['id']==pid: break
rec={k:p[k] for k in ('id','title','statement','quantifier','anchors')}
print(f"""You are working in a scratch git worktree of the Go repository ElrondNetwork/elrond-go at /tmp/mut/{pid} (a sharded PoS blockchain node). Work ONLY inside /tmp/mut/{pid} and write deliverables to /tmp/mutout/{pid}/ ; do not read, list or use anything under /verif, /repo, /tmp/mutout/<other ids> or other /tmp/mut/<other ids> directories. The sandbox has no network. In every shell call first run: export GOFLAGS=-mod=mod GOPROXY=off GOSUMDB=off GOTOOLCHAIN=local  (default go is 1.23.5; the module builds offline). Other jobs share this 16-core machine, so run only the tests you need (single packages, -run filters where sensible), never the whole repository suite.

Here is a semantic property this code base is supposed to satisfy (JSON record):

{json.dumps(rec,indent=1)}

Your task: produce TWO different source changes (mutations) to the repository, each of which BREAKS this property while the code still compiles and the repository's EXISTING tests still pass. Think of realistic bugs a developer could introduce or a reviewer could miss: a refactoring slip, an off-by-one, a wrong comparison, a dropped or narrowed lock, a missing copy, a skipped step on a rare path, a stale cache, two cooperating sites that each look fine alone. Each change must need something SPECIFIC to manifest — a particular interleaving, a crash or fault at a particular point, a multi-step sequence of operations, an unusual input, or two cooperating sites — NOT something that ordinary use (or the existing unit tests) would expose at once. The two mutations should hit different mechanisms/code paths behind the property if possible. Do not touch test files or build files in the patch; keep each patch small (a few lines to ~30 lines). Do not add build tags.

For each mutation k in (1,2) deliver in /tmp/mutout/{pid}/m<k>/ :
  - patch.diff : `git diff` of the non-test source change only, relative to the worktree root; it must apply with `git apply` to a clean checkout of HEAD.
  - a demonstration that FAILS with the change and PASSES without it: preferably one new Go test file (name it verifdemo_test.go, say which package directory it goes in), or a small main program; it should drive the real code through its API (exported or package-internal), and print/assert the violated behaviour.
  - meta.json : {{"property": "{pid}", "summary": "<one line>", "mechanism": "<what was changed and why it breaks the property>", "needs_to_manifest": "<the specific interleaving / sequence / input / fault needed>", "demo": {{"file": "verifdemo_test.go", "package_dir": "<dir>", "command": "<go test command>"}}, "tests_run": ["<commands you ran for the existing tests and their result>"]}}
You MUST verify yourself, in the worktree: (a) with the patch applied the touched packages build and their existing tests (and the tests of the packages that directly depend on the changed behaviour) pass: `go test -count=1 ./<pkg>/...`; (b) the demonstration fails with the patch and passes on the clean tree (switch with `git apply patch.diff` / `git apply -R patch.diff`; NEVER use `git stash`: the stash is shared by all worktrees of this repository and other jobs would pop your change). Leave the worktree clean (git checkout -- . ; remove untracked files) when you are done. If you can only produce one valid mutation, deliver one and say why. Finish with a short report: for each mutation the one-line summary, what it needs to manifest, and the exact commands you ran with results.""")
