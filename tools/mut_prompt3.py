#!/usr/bin/env python3
# round-3 brief: round-1 brief + summaries of every change explored so far + a steer toward the classes
# of change that earlier rounds showed the checks to be least prepared for
import json,sys,glob,subprocess
pid=sys.argv[1]
base=subprocess.run(['python3','/verif/tools/mut_prompt.py',pid],capture_output=True,text=True).stdout
base=base.replace('/tmp/mut/','/tmp/mut3/').replace('/tmp/mutout/','/tmp/mutout3/')
prev=[]
for d in sorted(glob.glob('/verif/seeded/%s-*/meta.json'%pid)):
    m=json.load(open(d)); prev.append('- '+(m.get('summary') or '').replace('\n',' '))
extra="\n\nAlready explored by earlier jobs (do NOT repeat these or close variants of them; find DIFFERENT mechanisms / code paths / input classes behind the property):\n"+"\n".join(prev)+"""

Prefer (where the code behind this property offers it) one of these classes of change, which earlier jobs rarely used:
 (a) aliasing: the code keeps a reference to a caller's slice / *big.Int / map / struct instead of a copy, or hands out a reference to its internal state, so a later mutation by the caller (or a recycled buffer) changes the outcome;
 (b) a narrowed, split or re-ordered critical section that leaves NO data race (every access still locked / atomic) but allows a lost update, a stale read or a check-then-act gap under a specific interleaving;
 (c) an error / fault path: a storage Put/Get/Remove, marshal/unmarshal or hasher error at a specific step leaves partial state behind, or an error is swallowed;
 (d) configuration extremes that the constructors accept (zero, one, equal bounds, the maximum value of a size/limit/count/epoch field) taking a different code path;
 (e) state that should be reset but survives a Clear/Reset/Revert/epoch change/restart-from-storage, or per-instance state that goes wrong only on a long-lived instance after a particular history;
 (f) two call paths that must agree (e.g. a fast path/cache and the slow path, the getter and the iterator, the sync and the async variant) where only one is changed.
If none of these fits the code, any other realistic mechanism is fine.

Also: several recent commits in this repository whose message starts with 'fix:' repaired defects related to such properties; do not simply revert one of those commits.
"""
print(base+extra)
