#!/usr/bin/env python3
# round-2 brief: same as round 1 plus the list of already explored changes (summaries only)
import json,sys,glob,subprocess
pid=sys.argv[1]
base=subprocess.run(['python3','/verif/tools/mut_prompt.py',pid],capture_output=True,text=True).stdout
base=base.replace('/tmp/mut/','/tmp/mut2/').replace('/tmp/mutout/','/tmp/mutout2/')
prev=[]
for d in sorted(glob.glob('/verif/seeded/%s-m*/meta.json'%pid)):
    m=json.load(open(d)); prev.append('- '+(m.get('summary') or '').replace('\n',' '))
extra="\n\nAlready explored by an earlier job (do NOT repeat these or close variants of them; find DIFFERENT mechanisms / code paths / input classes behind the property):\n"+"\n".join(prev)+"\n\nAlso: several recent commits in this repository whose message starts with 'fix:' repaired defects related to such properties; do not simply revert one of those commits.\n"
print(base+extra)
