#!/usr/bin/env python3
# prints a markdown table of /verif/seeded/*: property, summary, what it needs, detected by which check / key
import json,glob,os,re
rows=[]
for d in sorted(glob.glob('/verif/seeded/*/')):
    m=json.load(open(d+'meta.json'))
    name=os.path.basename(d.rstrip('/'))
    det=[c for c in m.get('checks',[]) if c.get('detected')]
    keys=[]
    for l in m.get('confirmation_log',[]):
        mm=re.search(r'key=(.*?) what=',l)
        if mm and mm.group(1) not in keys: keys.append(mm.group(1))
        if 'process crashed' in l: keys.append('process crash (fatal/panic)')
    status='caught by '+', '.join(c['check'] for c in det) if det else 'NOT caught'
    if m.get('history'): status+=' (after strengthening)'
    s=(m.get('summary') or '').replace('|','/').replace('\n',' ')
    if len(s)>230: s=s[:227]+'...'
    rows.append((name,m['property'],s,status,'; '.join(keys[:3])))
print("| seeded change | summary | result | witness keys reported |")
print("|---|---|---|---|")
for r in rows: print("| %s | %s | %s | %s |"%(r[0],r[2],r[3],r[4].replace('|','/')))
