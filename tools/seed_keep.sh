#!/bin/bash
# tools/seed_keep.sh <Cnn> <mutant dir> <name> <mutcheck output file>
# copies a confirmed mutation into /verif/seeded/<name>/ and records what was run
set -eu
ID="$1"; MD="$(readlink -f "$2")"; NAME="$3"; LOG="$4"
D=/verif/seeded/$NAME; mkdir -p "$D"
cp "$MD/patch.diff" "$D/patch.diff"
demofile=$(python3 -c "import json;m=json.load(open('$MD/meta.json'));print(m['demo']['file'])")
cp "$MD/$(basename "$demofile")" "$D/"
python3 - "$MD/meta.json" "$LOG" "$D/meta.json" "$ID" <<'PY'
import json,sys,re
m=json.load(open(sys.argv[1])); log=open(sys.argv[2],errors='replace').read()
out={"property":sys.argv[4],"summary":m.get("summary"),"mechanism":m.get("mechanism"),"needs_to_manifest":m.get("needs_to_manifest"),
 "demo":m.get("demo"),"author_tests_run":m.get("tests_run"),
 "confirmed_by":"tools/mutcheck.sh in a scratch worktree of /repo HEAD (demo on clean tree, demo with patch, existing tests of touched packages with patch, then the quick check built against the patched worktree)",
 "confirmation_log":log.strip().split("\n")}
mm=re.search(r"demo_clean_rc=(\d+) demo_mut_rc=(\d+) pkgtests_rc=(\d+)",log)
if mm: out["demo_passes_on_clean_tree"]=mm.group(1)=="0"; out["demo_fails_with_patch"]=mm.group(2)!="0"; out["existing_pkg_tests_pass_with_patch"]=mm.group(3)=="0"
det=[]
for c in re.finditer(r"CHECK (C\d+) rc=(\d+)",log): det.append({"check":c.group(1),"rc":int(c.group(2)),"detected":c.group(2)=="1"})
out["checks"]=det
json.dump(out,open(sys.argv[3],"w"),indent=1)
PY
echo "kept $D"
