#!/bin/bash
# tools/sweep.sh <tier> <seed...> : runs every registered check at the given seeds, prints one line per run
cd /verif
tier=$1; shift
for seed in "$@"; do
  for id in $(python3 -c "import json;print(' '.join(c['property_id'] for c in json.load(open('/verif/MANIFEST.json'))['checks']))"); do
    t0=$(date +%s); out=$(VERIF_SEED=$seed ./check.sh $id $tier 2>&1); rc=$?; t1=$(date +%s)
    echo "seed=$seed $id rc=$rc t=$((t1-t0))s $(echo "$out" | grep -E '^(VIOLATION|INCONCLUSIVE)' | head -2 | tr '\n' ' ')"
  done
done
