#!/usr/bin/env python3
import subprocess,re
t=subprocess.run(['python3','/verif/tools/seed_table.py'],capture_output=True,text=True).stdout
p='/verif/DESIGN.md'; s=open(p).read()
s=re.sub(r"<!-- SEEDTABLE-BEGIN -->.*<!-- SEEDTABLE-END -->","<!-- SEEDTABLE-BEGIN -->\n"+t+"<!-- SEEDTABLE-END -->",s,flags=re.S)
open(p,'w').write(s)
